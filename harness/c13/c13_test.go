// Package c13 decides C13: an expression means the same in every position that accepts it
// ({{ }}, bound attribute, v-if, v-else-if, v-show) and equals the conventional evaluation over
// the data; pipes equal left-to-right application of the registered functions with the
// documented conversions; unknown function / wrong arity / impossible conversion / returned
// error fail the render with an error naming the function.
//
// Oracle: model_test.go (own path walker + evaluator) and funcs_test.go (documented built-ins
// re-modelled from docs/funcmap.md, registered Go functions called directly). vuego is only
// ever asked to render.
package c13

import (
	"bytes"
	"context"
	"encoding/json"
	"fmt"
	"math"
	"reflect"
	"sort"
	"strconv"
	"strings"
	"testing"
	"testing/fstest"

	"github.com/titpetric/vuego"
	"golang.org/x/net/html"

	"verif/internal/ev"
	"verif/internal/hx"
	"verif/internal/run"
)

const prop = "C13"

// Positions an expression can be placed in.
const (
	posInterp = "interp"    // <i>{{ e }}</i>
	posSAttr  = "sattr"     // <i title="{{ e }}"></i>   (the documented href="{{ … }}" form)
	posBound  = "bound"     // <b :data-x="e"></b>
	posIf     = "v-if"      // <p v-if="e">Y</p><p v-else>N</p>
	posElseIf = "v-else-if" // <p v-if="off">A</p><p v-else-if="e">Y</p><p v-else>N</p>
	posShow   = "v-show"    // <s v-show="e">S</s>
)

// posVText: <u v-text="e"></u> - the element's text is the printed value of e, like {{ e }}
// (compared in the zero-value dimension, zero_test.go)
const posVText = "vtext"

var allExprPos = []string{posInterp, posSAttr, posBound, posIf, posElseIf, posShow}
var condPos = []string{posIf, posElseIf, posShow}
var valuePos = []string{posInterp, posSAttr, posBound}
var pipePos = []string{posInterp, posSAttr, posBound}

// Arg is one argument of a pipe stage: str (quoted literal, Q = d|s), int, float, bool, path.
type Arg struct {
	K string `json:"k"`
	V string `json:"v"`
	Q string `json:"q,omitempty"`
}

func (a Arg) Text() string {
	if a.K == "str" {
		return quote(a.V, a.Q)
	}
	return a.V
}

// Stage is one `| f(args)` of a chain.
type Stage struct {
	F string `json:"f"`
	A []Arg  `json:"a,omitempty"`
}

func (s Stage) Text() string { return s.text(&speller{}) }

func (s Stage) text(sp *speller) string {
	if len(s.A) == 0 {
		return s.F
	}
	out := s.F + "("
	for i, a := range s.A {
		if i > 0 {
			l, r := sp.around("comma")
			out += l + "," + r
		}
		out += a.Text()
	}
	return out + ")"
}

// Case is pure data. Fam selects the family:
//
//	expr: E evaluated in Pos; oracle = eval(E)
//	neg:  E = !path over a non-bool path; only agreement of the condition positions is asserted
//	absent: E = a name that is not a variable (possibly the name of a function): nil everywhere
//	path: E = a path in vuego's own syntax (hyphenated keys, numeric dot steps) as the whole expression
//	pipe: Init | Stages…; oracle = left-to-right application
//	err:  Init | Stages… (or the call form Fn(Init-as-args) when Call) must fail naming ErrFn
type Case struct {
	Fam    string   `json:"fam"`
	Env    int      `json:"env"`
	Pos    []string `json:"pos"`
	E      *Expr    `json:"e,omitempty"`
	Init   string   `json:"init,omitempty"`
	Stages []Stage  `json:"stages,omitempty"`
	Call   bool     `json:"call,omitempty"` // err family: Stages[0] written as a direct call f(args) without piped value
	ErrFn  string   `json:"errfn,omitempty"`
	// err family, call form only: the failing call f(args) sits inside an operator expression:
	//   not: !f(args)   notparen: !(f(args))   or: !X || f(args)   and: !X && f(args)
	//   inner: G(f(args))   innerop: G(f(args)) == 'x'   (the failing call directly behind G's "(")
	// X (WrapX) is a bool path chosen so that the right operand has to be evaluated, or G.
	// With more than one stage and Call, the call is the INPUT of a pipe: f(args) | g | h.
	// expr / neg family: the expression is evaluated inside nested v-for scopes (outermost first)
	// that rebind a root variable: the reference evaluator resolves innermost-first.
	Scope []Bind `json:"scope,omitempty"`
	// expr / pipe family: the spacing the source is written with (see spellings); the tree, and
	// so the expected value in every position, does not depend on it
	Spell string `json:"spell,omitempty"`
	// expr family: engine history - after the first check the same engine evaluates this many
	// other distinct expressions, then the case is checked a second time
	History int `json:"history,omitempty"`
	// expr / pipe family: "after-failure" - before the case, a template built from the case's OWN
	// source that fails LATE (literal text and the successful case expression first, then a
	// failing filter) is rendered in a text run and in an attribute: "fresh" on a fresh engine
	// filled with recognisably different values (strings + "-STALE", ints + 1000), "same" on the
	// case's engine. Nothing of the failed render may show in the case.
	After string `json:"after,omitempty"`
	// expr family: the engine first evaluates the expression while the registered functions it
	// calls are NOT yet registered (it may fail), then they are registered on the same engine
	Late bool `json:"late,omitempty"`
	// how the data reaches the engine: "" New().Fill(map or struct) + RenderString; "assign"
	// New().Fill(empty map) then Assign key by key (struct, pointer, Stringer values as they
	// are); "fragment" NewVue(fs).Funcs(...) + RenderFragment(w, file, data). Same meaning.
	Deliver string `json:"deliver,omitempty"`
	// equivalent spellings (same meaning in all positions): Tpl how the expression is embedded
	// (tplSpellings); Strict the first N == / != are written === / !==; Keys every .name step
	// as ['name'] ("s") or ["name"] ("d"); Form "call" writes a chain x | f(a) | g as g(f(x, a))
	Tpl    string `json:"tpl,omitempty"`
	Strict int    `json:"strict,omitempty"`
	Keys   string `json:"keys,omitempty"`
	Form   string `json:"form,omitempty"`
	// the case registers its own upper / lower / trim / title / len, replacing the default
	// functions of those names with distinguishable behaviour (see overrideOn)
	Override bool   `json:"override,omitempty"`
	Wrap     string `json:"wrap,omitempty"`
	WrapX    string `json:"wrapx,omitempty"`
	Why      string `json:"why,omitempty"` // err family: unknown | arity | conversion | returned
}

// Bind is one `v-for="Var in List"` scope; List is a root variable (see scopeLists).
type Bind struct {
	Var  string `json:"var"`
	List string `json:"list"`
}

// iteration is one combination of loop elements: the model environment (innermost binding
// wins) and a note for messages.
type iteration struct {
	env  map[string]any
	note string
}

// iterations lists the combinations of the nested loops in rendering order (outer-major).
func (c Case) iterations(root map[string]any) []iteration {
	its := []iteration{{env: root}}
	for _, b := range c.Scope {
		l, _ := root[b.List].([]any)
		var next []iteration
		for _, it := range its {
			for k, el := range l {
				e := make(map[string]any, len(it.env)+1)
				for n, v := range it.env {
					e[n] = v
				}
				e[b.Var] = el
				next = append(next, iteration{env: e, note: it.note + fmt.Sprintf(" inside v-for=\"%s in %s\" at element %d (%s=%#v, root %s=%#v)", b.Var, b.List, k, b.Var, el, b.Var, root[b.Var])})
			}
		}
		its = next
	}
	return its
}

func (c Case) scopeWrap() (open, close string) {
	for _, b := range c.Scope {
		open += `<div v-for="` + b.Var + ` in ` + b.List + `">`
		close += "</div>"
	}
	return
}

// Text is the expression source placed into the template.
func (c Case) Text() string {
	switch c.Fam {
	case "expr", "neg", "path", "absent":
		return c.E.text(&speller{mode: c.Spell, strict: c.Strict, keys: c.Keys})
	}
	if c.Call {
		f := c.Stages[0].Text()
		if len(c.Stages) > 1 {
			// the call is the INPUT of a pipe: f(args) | g | h
			for _, s := range c.Stages[1:] {
				f += " | " + s.Text()
			}
			return f
		}
		switch c.Wrap {
		case "inner":
			return c.WrapX + "(" + f + ")"
		case "innerop":
			return c.WrapX + "(" + f + ") == 'x'"
		case "not":
			return "!" + f
		case "notparen":
			return "!(" + f + ")"
		case "or":
			return "!" + c.WrapX + " || " + f
		case "and":
			return "!" + c.WrapX + " && " + f
		}
		return f
	}
	sp := &speller{mode: c.Spell}
	if c.Form == "call" {
		// the same chain in call form: x | f(a) | g  ==  g(f(x, a))
		out := c.Init
		for _, s := range c.Stages {
			args := out
			for _, a := range s.A {
				l, r := sp.around("comma")
				args += l + "," + r + a.Text()
			}
			out = s.F + "(" + args + ")"
		}
		return out
	}
	out := c.Init
	for _, s := range c.Stages {
		l, r := sp.around("sym") // the pipe is spaced like the symbolic operators
		out += l + "|" + r + s.text(sp)
	}
	return out
}

// attrEsc makes the expression safe inside a double-quoted attribute of the template source.
// Only the double quote needs a character reference; "&&" followed by a space and "<" are
// literal text in an HTML5 attribute value, exactly as in the documented examples.
func attrEsc(s string) string { return strings.ReplaceAll(s, `"`, "&quot;") }

func templateFor(pos, e string) string { return templateForV(pos, e, "") }

// template-level spellings (same meaning): how the expression is embedded in the template.
//
//	""         {{ e }}, :data-x="e", v-if="e" … with double-quoted attribute values
//	pad-none   no blank around the expression ({{e}}, v-if="e")
//	pad-tab / pad-lf / pad-crlf / pad-wide   tabs / a line break / CRLF / blanks and line breaks around it
//	vbind      v-bind:data-x instead of :data-x
//	squote     single-quoted attribute values
//	upper      upper-case directive names (V-IF, V-SHOW, V-BIND:DATA-X)
var tplSpellings = []string{"", "pad-none", "pad-tab", "pad-lf", "pad-crlf", "pad-wide", "vbind", "squote", "upper"}

func templateForV(pos, e, tv string) string {
	l, r := " ", " " // around the mustache content
	al, ar := "", "" // around a directive's attribute value
	switch tv {
	case "pad-none":
		l, r = "", ""
	case "pad-tab":
		l, r, al, ar = "\t", "\t", "\t", " \t"
	case "pad-lf":
		l, r, al, ar = "\n", "\n", "\n", "\n"
	case "pad-crlf":
		l, r, al, ar = "\r\n", "\r\n", "\r\n", "\r\n"
	case "pad-wide":
		l, r, al, ar = "  \n    ", "\n  ", "  ", "   "
	}
	q, esc := `"`, attrEsc(e)
	if tv == "squote" {
		q, esc = "'", strings.ReplaceAll(e, "'", "&#39;")
	}
	bind, vif, velseif, vshow, voff := ":data-x", "v-if", "v-else-if", "v-show", `v-if="off"`
	switch tv {
	case "vbind":
		bind = "v-bind:data-x"
	case "upper":
		bind, vif, velseif, vshow, voff = "V-BIND:DATA-X", "V-IF", "V-ELSE-IF", "V-SHOW", `V-IF="off"`
	}
	switch pos {
	case posInterp:
		return "<i>{{" + l + e + r + "}}</i>"
	case posSAttr:
		return `<i title=` + q + `{{` + l + esc + r + `}}` + q + `></i>`
	case posBound:
		return `<b ` + bind + `=` + q + al + esc + ar + q + `></b>`
	case posIf:
		return `<p ` + vif + `=` + q + al + esc + ar + q + `>Y</p><p v-else>N</p>`
	case posElseIf:
		return `<p ` + voff + `>A</p><p ` + velseif + `=` + q + al + esc + ar + q + `>Y</p><p v-else>N</p>`
	case posVText:
		vt := "v-text"
		if tv == "upper" {
			vt = "V-TEXT"
		}
		// no blanks around the value: what v-text does with a padded value is not documented
		// (the current tree prints nothing for v-text=" z "), so the pad-* spellings leave it alone
		return `<u ` + vt + `=` + q + esc + q + `></u>`
	case posShow:
		return `<s ` + vshow + `=` + q + al + esc + ar + q + `>S</s>`
	}
	return ""
}

// obs is what one position shows.
type obs struct {
	err     error
	text    string // printed value (interp, sattr, bound when present)
	present bool   // value-carrying positions: something was emitted
	truthy  bool   // the position's verdict on truthiness (bound: attribute emitted; v-if: branch; v-show: visible)
	hasBool bool   // the position gives a truthiness verdict
}

// engine is one vuego instance, fresh per case and shared by the renders of that case (so the
// documented program cache of the expression evaluator is exercised across expressions).
type engine struct {
	t vuego.Template
	// late engines: a *vuego.Vue over an in-memory file system, so that template functions can
	// be registered AFTER the engine has already evaluated (and failed on) expressions
	vue   *vuego.Vue
	fsys  fstest.MapFS
	data  any
	nfile int

	open, close string              // enclosing scopes of the position template
	idx, n      int                 // which of the n rendered copies of the position is observed
	tv          string              // template-level spelling (see tplSpellings)
	cache       map[string]rendered // a template is rendered once per engine (all copies share it)
}

type rendered struct {
	out  string
	err  error
	ns   []*hx.N
	perr error
}

func newEngine(env any, text string) *engine {
	return &engine{t: vuego.New(vuego.WithFuncs(funcMapFor(text))).Fill(env), n: 1}
}

// newLateEngine knows only vuego's own functions; see engine.registerLate.
func newLateEngine(data any) *engine {
	fsys := fstest.MapFS{}
	return &engine{vue: vuego.NewVue(fsys), fsys: fsys, data: data, n: 1}
}

// registerLate registers the functions the expression needs on the engine that is already in use.
func (e *engine) registerLate(text string) {
	e.vue.Funcs(funcMapFor(text))
	e.cache = nil
}

func (e *engine) render(tpl string) (string, error) {
	r := e.renderParsed(tpl)
	return r.out, r.err
}

func (e *engine) renderParsed(tpl string) rendered {
	if r, ok := e.cache[tpl]; ok {
		return r
	}
	var b bytes.Buffer
	r := rendered{}
	if e.vue != nil {
		e.nfile++
		name := fmt.Sprintf("t%d.vuego", e.nfile)
		e.fsys[name] = &fstest.MapFile{Data: []byte(tpl)}
		r.err = e.vue.RenderFragment(&b, name, e.data)
	} else {
		r.err = e.t.RenderString(context.Background(), &b, tpl)
	}
	r.out = b.String()
	if r.err == nil {
		r.ns, r.perr = hx.Frag(r.out, hx.Collapse)
	}
	if e.cache == nil {
		e.cache = map[string]rendered{}
	}
	e.cache[tpl] = r
	return r
}

func observe(eng *engine, pos, e string) (obs, error) {
	r := eng.renderParsed(eng.open + templateForV(pos, e, eng.tv) + eng.close)
	out, err, ns, perr := r.out, r.err, r.ns, r.perr
	if err != nil {
		return obs{err: err}, nil
	}
	if perr != nil {
		return obs{}, fmt.Errorf("output does not parse: %v", perr)
	}
	tag := map[string]string{posInterp: "i", posSAttr: "i", posBound: "b", posIf: "p", posElseIf: "p", posShow: "s", posVText: "u"}[pos]
	els := hx.Find(ns, func(n *hx.N) bool { return n.Tag == tag })
	if len(els) != eng.n {
		return obs{}, fmt.Errorf("%s: expected %d <%s> in the output, got %d: %q", pos, eng.n, tag, len(els), out)
	}
	el := els[eng.idx]
	switch pos {
	case posInterp:
		// exact text (inner blanks matter for values such as JSON); only the ends are trimmed
		return obs{text: strings.TrimSpace(rawText(out, "i", eng.idx)), present: true}, nil
	case posVText:
		return obs{text: strings.TrimSpace(rawText(out, "u", eng.idx)), present: true}, nil
	case posSAttr:
		t, ok := el.Attrs["title"]
		if !ok {
			return obs{}, fmt.Errorf("sattr: static title attribute vanished: %q", out)
		}
		return obs{text: t, present: true}, nil
	case posBound:
		t, ok := el.Attrs["data-x"]
		for k := range el.Attrs {
			if k != "data-x" {
				return obs{}, fmt.Errorf("bound: unexpected attribute %q in %q", k, out)
			}
		}
		return obs{text: t, present: ok, truthy: ok, hasBool: true}, nil
	case posIf, posElseIf:
		t := hx.TextOf(el.Kids, " ")
		if t != "Y" && t != "N" {
			return obs{}, fmt.Errorf("%s: rendered branch %q, want the Y or the N branch: %q", pos, t, out)
		}
		return obs{truthy: t == "Y", hasBool: true}, nil
	case posShow:
		hidden := false
		for _, d := range strings.Split(el.Attrs["style"], ";") {
			kv := strings.SplitN(d, ":", 2)
			if len(kv) == 2 && strings.EqualFold(strings.TrimSpace(kv[0]), "display") && strings.EqualFold(strings.TrimSpace(kv[1]), "none") {
				hidden = true
			}
		}
		if hx.TextOf(el.Kids, " ") != "S" {
			return obs{}, fmt.Errorf("v-show: element content changed: %q", out)
		}
		return obs{truthy: !hidden, hasBool: true}, nil
	}
	return obs{}, fmt.Errorf("unknown position %q", pos)
}

// sameValue compares printed text with the expected value: floats numerically, JSON by
// meaning, everything else by fmt.Sprint (whitespace-normalised like the HTML text).
func sameValue(got string, want any) bool {
	switch w := want.(type) {
	case float64:
		g, err := strconv.ParseFloat(strings.TrimSpace(got), 64)
		if err != nil {
			return false
		}
		return g == w || math.Abs(g-w) <= 1e-9*math.Max(math.Abs(g), math.Abs(w))
	case jsonText:
		var a, b any
		if json.Unmarshal([]byte(got), &a) != nil || json.Unmarshal([]byte(w), &b) != nil {
			return false
		}
		return reflect.DeepEqual(a, b)
	case nil:
		return got == ""
	case string:
		// blanks at the ends of a printed value are not significant in HTML text / attributes
		return strings.TrimSpace(got) == strings.TrimSpace(w)
	}
	return strings.TrimSpace(got) == fmt.Sprint(want)
}

// rawText returns the concatenated text below the idx-th <tag> of the output, unnormalised.
func rawText(out, tag string, idx int) string {
	ns, err := hx.ParseFragment(out)
	if err != nil {
		return ""
	}
	var sb strings.Builder
	var text func(n *html.Node)
	text = func(n *html.Node) {
		if n.Type == html.TextNode {
			sb.WriteString(n.Data)
		}
		for c := n.FirstChild; c != nil; c = c.NextSibling {
			text(c)
		}
	}
	seen := 0
	var find func(n *html.Node) bool
	find = func(n *html.Node) bool {
		if n.Type == html.ElementNode && n.Data == tag {
			if seen == idx {
				text(n)
				return true
			}
			seen++
			return false
		}
		for c := n.FirstChild; c != nil; c = c.NextSibling {
			if find(c) {
				return true
			}
		}
		return false
	}
	for _, n := range ns {
		if find(n) {
			break
		}
	}
	return sb.String()
}

func check(c Case) error {
	overrideOn = c.Override
	defer func() { overrideOn = false }()
	env := envOf(c.Env)
	pos := c.Pos
	switch c.Fam {
	case "expr", "neg", "path", "absent":
		if c.E == nil {
			return nil
		}
		if len(pos) == 0 {
			pos = allExprPos
		}
		its := c.iterations(env)
		eng, err := caseEngine(c, env)
		if err != nil {
			return err
		}
		pass := func(when string) error {
			for j, it := range its {
				if err := checkValue(c, it.env, eng, pos, j, its); err != nil {
					if it.note+when == "" {
						return err
					}
					return fmt.Errorf("%v;%s%s", err, it.note, when)
				}
			}
			return nil
		}
		if err := pass(""); err != nil || c.History == 0 {
			return err
		}
		// engine history: the same engine evaluates c.History further distinct expressions, then
		// the case is checked again - the same text must keep meaning the same
		if err := warmUp(eng, env, c.Env, c.History); err != nil {
			return err
		}
		eng.cache = nil
		return pass(fmt.Sprintf(" [second evaluation, after %d other distinct expressions on the same engine]", c.History))
	case "pipe":
		if len(pos) == 0 {
			pos = pipePos
		}
		eng, err := caseEngine(c, env)
		if err != nil {
			return err
		}
		return checkValue(c, env, eng, pos, 0, []iteration{{env: env}})
	case "err":
		if len(pos) == 0 {
			pos = pipePos
		}
		return checkErr(c, env, pos)
	}
	return nil
}

// expected computes the model's value. known=false means "no single conventional value"
// (`/`, negation of a non-bool): then only the agreement between positions is asserted.
func expected(c Case, env map[string]any) (v any, known bool, err error) {
	switch c.Fam {
	case "neg":
		return nil, false, nil
	case "absent":
		// a name the data does not bind (it may be the name of a function): nil in every position
		if _, ok := resolve(env, c.E.V); ok {
			return nil, false, fmt.Errorf("CHECK-BUG: %s is bound in environment %d", c.E.V, c.Env)
		}
		return nil, true, nil
	case "path":
		// a path in vuego's own syntax as the whole expression: the value the path walker finds
		v, ok := resolve(env, c.E.V)
		if !ok {
			return nil, false, fmt.Errorf("CHECK-BUG: path %s does not resolve in the model", c.E.V)
		}
		return v, !dotIndex(c.E.V), nil
	case "expr":
		v, err := eval(*c.E, env)
		if err != nil {
			return nil, false, fmt.Errorf("CHECK-BUG (generator produced an ill-typed tree %s): %v", c.E.Text(), err)
		}
		if _, u := v.(unknown); u {
			return nil, false, nil
		}
		return v, true, nil
	}
	v, st, perr := evalPipe(c, env)
	if st != convOK || perr != nil {
		return nil, false, fmt.Errorf("CHECK-BUG (generator produced a chain outside the documented domain: %s): status %d err %v", c.Text(), st, perr)
	}
	return v, true, nil
}

// evalPipe applies the stages left to right: the piped value is the first argument.
func evalPipe(c Case, env map[string]any) (any, convStatus, error) {
	var cur any
	if !c.Call {
		cur, _ = resolve(env, c.Init) // a missing initial value is passed as nil
	}
	for i, s := range c.Stages {
		f, ok := funcs[s.F]
		if !ok {
			return nil, convImpossible, fmt.Errorf("unknown function %s", s.F)
		}
		var args []any
		if !(c.Call && i == 0) {
			args = append(args, cur)
		}
		for _, a := range s.A {
			args = append(args, argValue(a, env))
		}
		v, st, err := f.apply(args)
		if st != convOK || err != nil {
			return nil, st, err
		}
		cur = v
	}
	return cur, convOK, nil
}

func argValue(a Arg, env map[string]any) any {
	switch a.K {
	case "str":
		return a.V
	case "int":
		n, _ := strconv.Atoi(a.V)
		return n
	case "float":
		f, _ := strconv.ParseFloat(a.V, 64)
		return f
	case "bool":
		return a.V == "true"
	}
	v, _ := resolve(env, a.V)
	return v
}

// checkValue checks the idx-th of n rendered copies: env is the model environment of that copy
// (innermost bindings applied); eng is the case's engine, filled with the root data.
// all lists every copy: a twin is only rendered if the model can evaluate it in all of them (one
// template renders all copies; a twin dividing by zero in another copy would fail the render).
func checkValue(c Case, env map[string]any, eng *engine, pos []string, idx int, all []iteration) error {
	n := len(all)
	validAll := func(e Expr) bool {
		for _, it := range all {
			if _, err := eval(e, it.env); err != nil {
				return false
			}
		}
		return true
	}
	src := c.Text()
	want, known, err := expected(c, env)
	if err != nil {
		return err
	}
	eng.open, eng.close = c.scopeWrap()
	eng.tv = c.Tpl
	eng.idx, eng.n = idx, n
	if c.Fam == "expr" {
		// the twin (same shape, same length, sibling operators) goes through the same engine first
		if tw := twin(*c.E); tw.Text() != src && validAll(tw) {
			if tv, err := eval(tw, env); err == nil {
				if _, u := tv.(unknown); !u {
					for _, p := range []string{posInterp, posIf} {
						if !contains(pos, p) {
							continue
						}
						o, herr := observe(eng, p, tw.Text())
						if herr != nil {
							return fmt.Errorf("`%s` in position %s (env %d): %v", tw.Text(), p, c.Env, herr)
						}
						if o.err != nil {
							return fmt.Errorf("`%s` in position %s (env %d): render failed: %v; the expression is well-formed and every path resolves; conventional value %v (%T)", tw.Text(), p, c.Env, o.err, tv, tv)
						}
						if (o.present && !sameValue(o.text, tv)) || (o.hasBool && o.truthy != truthy(tv)) {
							return fmt.Errorf("`%s` in position %s (env %d): shows %q truthy=%v, conventional evaluation gives %v (%T)", tw.Text(), p, c.Env, o.text, o.truthy, tv, tv)
						}
					}
				}
			}
		}
	}
	if c.Fam == "expr" {
		// second twin: the blanks INSIDE the string literals changed (a different expression with
		// the same tokens), then the expression itself with the blanks OUTSIDE literals doubled
		// (same meaning); both go through the same engine before the expression proper
		// (a failure of the expression proper names what ran before it on the engine)
		type pre struct {
			text  string
			want  any
			known bool
		}
		var pres []pre
		if bt, changed := blankTwin(*c.E); changed && validAll(bt) {
			if bv, err := eval(bt, env); err == nil {
				_, u := bv.(unknown)
				pres = append(pres, pre{bt.Text(), bv, !u})
			}
		}
		if w := c.E.WideText(); w != src {
			pres = append(pres, pre{w, want, known})
		}
		for i, pr := range pres {
			after := ""
			if i > 0 {
				after = fmt.Sprintf(" (rendered on the same engine after `%s`)", pres[0].text)
			}
			for _, p := range []string{posInterp, posIf} {
				if !contains(pos, p) || !pr.known {
					continue
				}
				o, herr := observe(eng, p, pr.text)
				if herr != nil {
					return fmt.Errorf("`%s` in position %s (env %d): %v", pr.text, p, c.Env, herr)
				}
				if o.err != nil {
					return fmt.Errorf("`%s` in position %s (env %d): render failed: %v; the expression is well-formed and every path resolves; conventional value %v (%T)", pr.text, p, c.Env, o.err, pr.want, pr.want)
				}
				if (o.present && !sameValue(o.text, pr.want)) || (o.hasBool && o.truthy != truthy(pr.want)) {
					return fmt.Errorf("`%s` in position %s (env %d)%s: shows %q truthy=%v, conventional evaluation gives %v (%T)", pr.text, p, c.Env, after, o.text, o.truthy, pr.want, pr.want)
				}
			}
		}
	}
	seen := map[string]obs{}
	var order []string
	for _, p := range pos {
		o, herr := observe(eng, p, src)
		if herr != nil {
			return fmt.Errorf("%s in %s: %v", src, p, herr)
		}
		if o.err != nil {
			return fmt.Errorf("`%s` in position %s (env %d): render failed: %v; the expression is well-formed and every path resolves%s", src, p, c.Env, o.err, wantNote(want, known))
		}
		seen[p] = o
		order = append(order, p)
		if !known {
			continue
		}
		// (i) the value equals the model's
		if o.present && !(p == posBound && !truthy(want)) {
			if !sameValue(o.text, want) {
				return fmt.Errorf("`%s` in position %s (env %d): printed %q, conventional evaluation gives %v (%T)", src, p, c.Env, o.text, want, want)
			}
		}
		// (ii) the position's truthiness verdict equals the value's
		if o.hasBool && o.truthy != truthy(want) {
			return fmt.Errorf("`%s` in position %s (env %d): treated as truthy=%v, but its value is %v (%T), truthy=%v", src, p, c.Env, o.truthy, want, want, truthy(want))
		}
	}
	// positions agree with each other (also without a model value)
	var firstBool, firstText string
	for _, p := range order {
		o := seen[p]
		if o.hasBool {
			if firstBool == "" {
				firstBool = p
			} else if seen[firstBool].truthy != o.truthy {
				return fmt.Errorf("`%s` (env %d): position %s treats it as truthy=%v but position %s as truthy=%v", src, c.Env, firstBool, seen[firstBool].truthy, p, o.truthy)
			}
		}
		if o.present {
			if firstText == "" {
				firstText = p
			} else if strings.TrimSpace(seen[firstText].text) != strings.TrimSpace(o.text) {
				return fmt.Errorf("`%s` (env %d): position %s shows %q but position %s shows %q", src, c.Env, firstText, seen[firstText].text, p, o.text)
			}
		}
	}
	return nil
}

// caseEngine builds the engine of a value case and applies the Late and After dimensions.
func caseEngine(c Case, env map[string]any) (*engine, error) {
	src, data := c.Text(), dataOf(c.Env, env)
	var eng *engine
	if c.Late {
		eng = newLateEngine(data)
		open, close := c.scopeWrap()
		for _, p := range []string{posInterp, posIf, posBound} {
			_, _ = eng.render(open + templateFor(p, src) + close) // may fail: the functions are not registered yet
		}
		eng.registerLate(src)
	} else if c.Deliver == "fragment" {
		eng = newLateEngine(data)
		eng.registerLate(src)
	} else if m, isMap := data.(map[string]any); isMap && c.Deliver == "assign" {
		t := vuego.New(vuego.WithFuncs(funcMapFor(src))).Fill(map[string]any{})
		keys := make([]string, 0, len(m))
		for k := range m {
			keys = append(keys, k)
		}
		sort.Strings(keys)
		for _, k := range keys {
			t = t.Assign(k, m[k])
		}
		eng = &engine{t: t, n: 1}
	} else {
		eng = newEngine(data, src)
	}
	if c.After != "" {
		v := "a"
		if c.Env == structEnv {
			v = "total"
		}
		on := eng
		if c.After == "fresh" {
			on = newEngine(staleData(c.Env, env), src)
		}
		open, close := c.scopeWrap()
		fail := "{{ " + v + " | failif(true) }}"
		for _, tpl := range []string{
			open + "<p>Dear {{ " + src + " }}, your total is " + fail + "</p>" + close,
			open + `<p title="Dear {{ ` + attrEsc(src) + ` }} / ` + fail + `">x</p>` + close,
		} {
			out, err := on.render(tpl)
			if err == nil {
				return nil, fmt.Errorf("`%s | failif(true)` returns an error but the render of %q succeeded with %q", v, tpl, out)
			}
			if out != "" {
				return nil, fmt.Errorf("the failed render of %q wrote %q", tpl, out)
			}
		}
		eng.cache = nil
	}
	return eng, nil
}

// staleData is the environment with recognisably different values under the same names.
func staleData(envID int, env map[string]any) any {
	if envID == structEnv {
		return structData()
	}
	out := make(map[string]any, len(env))
	for k, v := range env {
		switch x := v.(type) {
		case string:
			out[k] = x + "-STALE"
		case int:
			out[k] = x + 1000
		case float64:
			out[k] = x + 1000.5
		default:
			out[k] = v
		}
	}
	return out
}

// warmUp renders one page with n distinct expressions v + 0 … v + (n-1) and verifies it.
func warmUp(eng *engine, env map[string]any, envID, n int) error {
	v := "a"
	if envID == structEnv {
		v = "total"
	}
	base, ok := env[v].(int)
	if !ok {
		return fmt.Errorf("CHECK-BUG: warm-up variable %s is not an int", v)
	}
	var sb strings.Builder
	for k := 0; k < n; k++ {
		fmt.Fprintf(&sb, "<em>{{ %s + %d }}</em>", v, k)
	}
	open, close, idx, cnt := eng.open, eng.close, eng.idx, eng.n
	eng.open, eng.close, eng.idx, eng.n = "", "", 0, 1
	defer func() { eng.open, eng.close, eng.idx, eng.n = open, close, idx, cnt }()
	r := eng.renderParsed(sb.String())
	if r.err != nil || r.perr != nil {
		return fmt.Errorf("a page with %d expressions %s + k failed to render: %v %v", n, v, r.err, r.perr)
	}
	ems := hx.Find(r.ns, func(x *hx.N) bool { return x.Tag == "em" })
	if len(ems) != n {
		return fmt.Errorf("a page with %d expressions %s + k rendered %d of them", n, v, len(ems))
	}
	for k, em := range ems {
		if got := hx.TextOf(em.Kids, ""); got != fmt.Sprint(base+k) {
			return fmt.Errorf("`%s + %d` printed %q on a page with %d expressions, conventional evaluation gives %d", v, k, got, n, base+k)
		}
	}
	return nil
}

func contains(l []string, x string) bool {
	for _, y := range l {
		if x == y {
			return true
		}
	}
	return false
}

// twin swaps every binary operator for a sibling of the same typing and text length
// (% and / keep their operand constraints and stay).
func twin(e Expr) Expr {
	out := e
	if e.K == "bin" {
		if to, ok := map[string]string{"+": "-", "-": "+", "*": "+", "<": ">", ">": "<", "<=": ">=", ">=": "<=", "==": "!=", "!=": "==", "&&": "||", "||": "&&"}[e.V]; ok {
			out.V = to
			if e.V == "+" {
				// string + has no sibling
				out.V = "+"
				if isNumericTree(e) {
					out.V = "-"
				}
			}
		}
	}
	out.A = nil
	for _, a := range e.A {
		out.A = append(out.A, twin(a))
	}
	return out
}

// isNumericTree reports whether a + node adds numbers (decided on literals / catalogue paths).
func isNumericTree(e Expr) bool {
	switch e.K {
	case "int", "float":
		return true
	case "str", "bool", "not":
		return false
	case "path":
		return contains(intPaths, e.V) || contains(floatPaths, e.V) || contains(fnIntPaths, e.V)
	case "paren":
		return isNumericTree(e.A[0])
	case "tern":
		return isNumericTree(e.A[1])
	case "call":
		return contains([]string{"len", "int", "add", "sum", "half", "scale"}, e.V)
	case "bin":
		switch e.V {
		case "+":
			return isNumericTree(e.A[0])
		case "-", "*", "%", "/":
			return true
		}
	}
	return false
}

func wantNote(want any, known bool) string {
	if !known {
		return ""
	}
	return fmt.Sprintf("; conventional value %v (%T)", want, want)
}

func checkErr(c Case, env map[string]any, pos []string) error {
	src := c.Text()
	// the model must agree that this chain fails, and why
	_, st, merr := evalPipe(c, env)
	switch c.Why {
	case "unknown":
		if _, ok := funcs[c.ErrFn]; ok {
			return fmt.Errorf("CHECK-BUG: %s is a known function", c.ErrFn)
		}
	case "arity":
		if st != convArity {
			return fmt.Errorf("CHECK-BUG: %s: model status %d, want arity", src, st)
		}
	case "conversion":
		if st != convImpossible {
			return fmt.Errorf("CHECK-BUG: %s: model status %d, want impossible conversion", src, st)
		}
	case "returned":
		if st != convOK || merr == nil {
			return fmt.Errorf("CHECK-BUG: %s: model status %d err %v, want a returned error", src, st, merr)
		}
	default:
		return fmt.Errorf("CHECK-BUG: why=%q", c.Why)
	}
	if c.Wrap == "or" || c.Wrap == "and" {
		// no short-circuit may skip the failing call: !X must be false for ||, true for &&
		x, ok := resolve(env, c.WrapX)
		if b, isB := x.(bool); !ok || !isB || b != (c.Wrap == "or") {
			return fmt.Errorf("CHECK-BUG: %s: left operand %s=%v lets the call be skipped", src, c.WrapX, x)
		}
	}
	// the failing function is the left-most one that fails; every function to its right is
	// never reached and must not be the one the error blames
	var later []string
	if c.Call {
		for _, st := range c.Stages[1:] {
			if st.F != c.ErrFn && !contains(later, st.F) {
				later = append(later, st.F)
			}
		}
		if (c.Wrap == "inner" || c.Wrap == "innerop") && c.WrapX != c.ErrFn {
			later = append(later, c.WrapX) // the enclosing function is never called
		}
	} else {
		failing := -1
		for k := 1; k <= len(c.Stages) && failing < 0; k++ {
			cut := c
			cut.Stages = c.Stages[:k]
			if _, st, merr := evalPipe(cut, env); st != convOK || merr != nil {
				failing = k - 1
			}
		}
		if failing < 0 || c.Stages[failing].F != c.ErrFn {
			return fmt.Errorf("CHECK-BUG: %s: the model's first failing stage is %d, not %s", src, failing, c.ErrFn)
		}
		for _, st := range c.Stages[failing+1:] {
			if st.F != c.ErrFn && !contains(later, st.F) {
				later = append(later, st.F)
			}
		}
	}
	eng := newEngine(env, src)
	for _, p := range pos {
		out, err := eng.render(templateFor(p, src))
		if err == nil {
			return fmt.Errorf("`%s` in position %s (env %d): %s (%s) but the render succeeded with %q; it must fail with an error naming %s", src, p, c.Env, whyText(c.Why), c.ErrFn, out, c.ErrFn)
		}
		// the error text usually quotes the whole expression; what it says about the failure is the rest
		said := strings.ReplaceAll(err.Error(), src, "")
		if !namesFunc(said, c.ErrFn) {
			return fmt.Errorf("`%s` in position %s (env %d): %s (%s): the error %q does not name the function %s (apart from quoting the expression)", src, p, c.Env, whyText(c.Why), c.ErrFn, err.Error(), c.ErrFn)
		}
		for _, l := range later {
			if blamesFunc(said, l) {
				return fmt.Errorf("`%s` in position %s (env %d): %s fails first (%s), but the error %q blames %s, which is further right and never reached", src, p, c.Env, c.ErrFn, whyText(c.Why), err.Error(), l)
			}
		}
	}
	return nil
}

// namesFunc reports whether text mentions name as a word of its own.
func namesFunc(text, name string) bool {
	for i := 0; ; {
		j := strings.Index(text[i:], name)
		if j < 0 {
			return false
		}
		j += i
		before := j == 0 || !isWordByte(text[j-1])
		after := j+len(name) == len(text) || !isWordByte(text[j+len(name)])
		if before && after {
			return true
		}
		i = j + 1
	}
}

// blamesFunc is the cautious converse: name appears as a function - followed by "(" or in
// quotes - and not merely as a word (string and int are also type names in conversion errors).
func blamesFunc(text, name string) bool {
	for _, q := range []string{name + "(", "'" + name + "'", `"` + name + `"`, "`" + name + "`"} {
		for i := 0; ; {
			j := strings.Index(text[i:], q)
			if j < 0 {
				break
			}
			j += i
			if q[0] != name[0] || j == 0 || !isWordByte(text[j-1]) {
				return true
			}
			i = j + 1
		}
	}
	return false
}

func isWordByte(b byte) bool {
	return b == '_' || b >= '0' && b <= '9' || b >= 'a' && b <= 'z' || b >= 'A' && b <= 'Z'
}

func whyText(w string) string {
	switch w {
	case "unknown":
		return "unknown function"
	case "arity":
		return "wrong argument count"
	case "conversion":
		return "impossible argument conversion"
	}
	return "the function returns an error"
}

func replay(kind string, raw json.RawMessage) error { return run.Decode(raw, check) }

func TestReplay(t *testing.T) { run.ReplayMain(t, prop, replay) }

func TestProp(t *testing.T) {
	rec := ev.New(prop)
	defer run.Finish(t, rec)
	run.Witnesses(rec, prop, replay)
	g := newGen(rec)

	// bounded exhaustive part, sharded: every operator x operand-source pairing at depth 1,
	// every function x parameter/argument pairing, every error kind x function
	shard, shards := run.Shard()
	enum := append(append(append(g.enumerate(), g.enumSigs()...), g.enumScopes()...), g.enumSpellings()...)
	enum = append(enum, g.enumStruct()...)
	enum = append(enum, g.enumPointers()...)
	enum = append(enum, g.enumExprLib()...)
	enum = append(enum, g.enumLate()...)
	enum = append(enum, g.enumOverride()...)
	enum = append(enum, g.enumEquivalents()...)
	enum = append(enum, g.enumNonASCII()...)
	enum = append(enum, g.enumZeros()...)
	okAll := true
	for i, c := range enum {
		if i%shards != shard {
			continue
		}
		if (c.Fam == "expr" || c.Fam == "pipe" || c.Fam == "path" || c.Fam == "absent") && c.Deliver == "" && !c.Override && i%4 == 1 {
			// data delivery, a rotating quarter of the cases: Assign key by key / Vue.RenderFragment
			c.Deliver = "fragment"
			if c.Env != structEnv && (i/4)%2 == 0 {
				c.Deliver = "assign"
			}
		}
		// documented-equivalent spellings, rotating over the enumeration
		if c.Fam == "expr" || c.Fam == "pipe" || c.Fam == "path" || c.Fam == "neg" || c.Fam == "absent" {
			if i%3 == 0 {
				c.Tpl = tplSpellings[1+(i/3)%(len(tplSpellings)-1)]
			}
			if c.E != nil && hasEq(*c.E) && i%2 == 0 {
				c.Strict = 1 + i%3
			}
			if c.E != nil && c.Fam != "absent" && i%5 == 0 {
				c.Keys = []string{"s", "d"}[(i/5)%2]
			}
			if c.Fam == "pipe" && i%4 == 2 {
				c = callForm(c)
			}
		}
		if (c.Fam == "expr" || c.Fam == "pipe") && i%7 == 3 {
			c.After = []string{"fresh", "same"}[(i/7)%2] // after-failure, a rotating seventh of the cases
		}
		if c.Fam == "expr" && i%9 == 4 && hasRegisteredCall(*c.E) && c.Deliver == "" {
			c.Late = true
		}
		if c.Fam == "expr" && i%97 < run.Pick(1, 3) {
			c.History = 300 // engine history: more distinct expressions than any bounded program cache of a few hundred entries
		}
		nt, cls := classify(c)
		if !run.Each(rec, "enum", c, nt, cls, check) {
			okAll = false
			break
		}
	}
	if okAll {
		rec.Exhaustive(fmt.Sprintf("depth-1 expressions: every operator x operand source x environment; every function x argument source pairing; every error kind x function (%d cases, minus open known-finding regions)", len(enum)))
	}

	run.Rapid(t, rec, "expr", g.genExprCase, classify, check)
	run.Rapid(t, rec, "pipe", g.genPipeCase, classify, check)
	run.Rapid(t, rec, "err", g.genErrCase, classify, check)
	run.Rapid(t, rec, "sig", g.genSigCase, classify, check)
}
