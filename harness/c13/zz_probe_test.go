package c13

import (
	"bytes"
	"context"
	"errors"
	"fmt"
	"testing"

	"github.com/titpetric/vuego"
)

type PIn struct{ X int; S string }
type PSt struct {
	Name string
	Age  int
	Ok   bool
	In   PIn
}

func penv() map[string]any {
	return map[string]any{
		"a": 7, "b": 3, "z": 0, "n": -4, "f": 2.5, "g": 0.5, "s": "abc", "h": "Hello", "e": "", "num": "42",
		"t": true, "u": false,
		"m":  map[string]any{"k": 5, "name": "bob", "ok": true, "in": map[string]any{"x": 9, "s": "deep"}},
		"xs": []int{10, 20, 30}, "ss": []string{"p", "q"},
		"st": PSt{"ann", 30, true, PIn{4, "inner"}},
		"big": int64(1234567), 
	}
}

func pfuncs() vuego.FuncMap {
	return vuego.FuncMap{
		"isBig": func(n int) bool { return n > 5 },
		"add":   func(a, b int) int { return a + b },
		"greet": func(s string) string { return "hi" + s },
		"fails": func(s string) (string, error) { return "", errors.New("boom") },
		"wrap": func(s string, l string, r string) string { return l + s + r },
		"joinv": func(parts ...string) string { r := ""; for _, p := range parts { r += "[" + p + "]" }; return r },
		"ctxf": func(c *vuego.VueContext, s string) string { return "c" + s },
		"half": func(f float64) float64 { return f / 2 },
		"i64": func(n int64) int64 { return n * 2 },
		"neg": func(b bool) bool { return !b },
		"anyf": func(v any) string { return fmt.Sprintf("%T", v) },
	}
}

func prs(tpl string) string {
	var b bytes.Buffer
	err := vuego.New(vuego.WithFuncs(pfuncs())).Fill(penv()).RenderString(context.Background(), &b, tpl)
	return fmt.Sprintf("%q err=%v", b.String(), err)
}

func TestZProbe(t *testing.T) {
	exprs := []string{
		`a`, `m.k`, `m["k"]`, `m['name']`, `xs[1]`, `m.in.x`, `st.Name`, `st.In.X`, `st.Ok`, `ss[0]`,
		`a + b`, `a - b`, `a * b`, `a % b`, `a / b`, `f + g`, `f * 2.0`, `a + 1`, `a + f`, `s + h`, `s + "x"`, `s + 'x'`,
		`a == 7`, `a != b`, `a < b`, `a <= 7`, `a > b`, `a >= b`, `s == "abc"`, `s == 'abc'`, `s < h`, `t == true`, `f < g`,
		`t && u`, `t || u`, `!t`, `!u`, `!t && u`, `!(t && u)`, `(a + b) * 2`, `a + b * 2`,
		`t ? a : b`, `a > b ? s : h`, `a > b ? "yes" : "no"`, `t ? 1 : 2`, `(a > b) ? 1 : 2`, `t ? (u ? 1 : 2) : 3`,
		`len(xs)`, `len(s)`, `upper(s)`, `lower(h)`, `int(num)`, `string(a)`, `len(xs) + 1`, `len(xs) > 2`, `upper(s) == "ABC"`,
		`isBig(a)`, `add(a, b)`, `add(a, 1)`, `greet(s)`, `add(a, b) + 1`, `isBig(a) && t`, `isBig(a) ? 1 : 2`, `greet(s) + "x"`,
		`true`, `false`, `42`, `"lit"`, `'lit'`, `2.5`, `-3`, `a + -3`, `a - -3`, `0 - a`,
		`!z`, `!a`, `!s`, `!e`, `z`, `e`, `0`, `""`, `a == 7 && s == "abc"`, `a + b == 10`, `a + b > 5 && t`,
		`title(h)`, `trim(s)`, `type(a)`, `default(e, "d")`, `json(xs)`,
		`m.in.s == "deep"`, `xs[0] + xs[2]`, `st.Age + 1`, `st.Name + "x"`, `m["k"] + 1`, `m['k'] + 1`,
		`f`, `f + 0.5`, `1.5 + 1.5`, `a * f`, `10 % 3`, `n % 3`,
	}
	for _, e := range exprs {
		tpl := fmt.Sprintf(`<i>{{ %s }}</i><b :data-x="%s"></b><p v-if="%s">IF</p><p v-else>ELSE</p><q v-if="u">n</q><q v-else-if="%s">EIF</q><q v-else>EELSE</q><s v-show="%s">S</s>`, e, htmlq(e), htmlq(e), htmlq(e), htmlq(e))
		fmt.Printf("%-28s %s\n", e, prs(tpl))
	}
}

func htmlq(s string) string {
	out := ""
	for _, c := range s {
		if c == '"' {
			out += "&quot;"
		} else {
			out += string(c)
		}
	}
	return out
}
