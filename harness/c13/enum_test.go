package c13

// Bounded exhaustive part: every operator x operand source at depth 1, every ternary and
// negation shape, every call; every function x argument-source pairing of the pipe family;
// every error kind x function. Used as a deterministic generator next to the random search.

import (
	"sort"
	"strings"
	"verif/internal/run"
)

func p(s string) Expr  { return Expr{K: "path", V: s} }
func li(s string) Expr { return Expr{K: "int", V: s} }
func lf(s string) Expr { return Expr{K: "float", V: s} }
func ls(s, q string) Expr {
	return Expr{K: "str", V: s, Q: q}
}
func lb(s string) Expr { return Expr{K: "bool", V: s} }

func (g *gen) enumerate() []Case {
	var out []Case
	addE := func(env int, e Expr) {
		if env == 0 || hasOperator(e) || e.K == "not" || e.K == "call" {
			ec := e
			if c, ok := g.finishExpr(Case{Fam: "expr", Env: env, E: &ec}); ok {
				out = append(out, c)
			}
		}
	}
	for env := 0; env < nEnvs; env++ {
		// every path on its own
		for _, l := range [][]string{intPaths, floatPaths, stringPaths, boolPaths, boundaryPaths} {
			for _, x := range l {
				addE(env, p(x))
			}
		}
		// operand sources per type: two paths and literals
		ints := []Expr{p("a"), p("m.k"), p("xs[2]"), p("st.Age"), li("3"), li("0")}
		floats := []Expr{p("f"), p("m.rate"), p("fs[1]"), lf("0.5"), lf("2.0")}
		strs := []Expr{p("s"), p("h"), p(`m["name"]`), p("st.Name"), ls("abc", "d"), ls("abc", "s"), ls("Hello", "d")}
		bools := []Expr{p("t"), p("u"), p("m.ok"), p("st.Ok"), lb("true"), lb("false")}
		isLit := func(e Expr) bool { return e.K != "path" }
		pairs := func(xs []Expr, f func(l, r Expr)) {
			for _, l := range xs {
				for _, r := range xs {
					if isLit(l) && isLit(r) {
						continue
					}
					f(l, r)
				}
			}
		}
		cmps := []string{"==", "!=", "<", "<=", ">", ">="}
		pairs(ints, func(l, r Expr) {
			for _, op := range []string{"+", "-", "*"} {
				addE(env, bin(op, l, r))
			}
			for _, op := range cmps {
				addE(env, bin(op, l, r))
			}
			if rv, err := eval(r, envOf(env)); err == nil && rv.(int) > 0 {
				if lv, _ := eval(l, envOf(env)); lv.(int) >= 0 {
					addE(env, bin("%", l, r))
				}
				addE(env, bin("/", l, r))
			}
		})
		pairs(floats, func(l, r Expr) {
			for _, op := range []string{"+", "-", "*"} {
				addE(env, bin(op, l, r))
			}
			for _, op := range cmps {
				addE(env, bin(op, l, r))
			}
		})
		for _, i := range ints {
			for _, f := range floats {
				if isLit(i) && isLit(f) {
					continue
				}
				for _, op := range []string{"+", "-", "*"} {
					addE(env, bin(op, i, f))
					addE(env, bin(op, f, i))
				}
			}
		}
		pairs(strs, func(l, r Expr) {
			addE(env, bin("+", l, r))
			for _, op := range cmps {
				addE(env, bin(op, l, r))
			}
		})
		pairs(bools, func(l, r Expr) {
			for _, op := range []string{"&&", "||", "==", "!="} {
				addE(env, bin(op, l, r))
			}
		})
		for _, b := range bools[:4] {
			addE(env, Expr{K: "not", A: []Expr{b}})
			addE(env, bin("&&", Expr{K: "not", A: []Expr{b}}, p("t")))
			addE(env, Expr{K: "not", A: []Expr{bin("||", b, p("u"))}})
			for _, br := range [][]Expr{{p("a"), p("b")}, {li("1"), li("2")}, {p("s"), ls("no", "d")}, {ls("yes", "s"), ls("no", "s")}, {p("f"), lf("0.5")}, {p("t"), p("u")}} {
				addE(env, Expr{K: "tern", A: []Expr{b, br[0], br[1]}})
				addE(env, Expr{K: "tern", A: []Expr{bin(">", p("a"), p("b")), br[0], br[1]}})
				addE(env, Expr{K: "tern", A: []Expr{bin("&&", b, p("m.ok")), br[0], br[1]}})
				addE(env, Expr{K: "tern", A: []Expr{Expr{K: "not", A: []Expr{b}}, br[0], br[1]}})
			}
		}
		// every call, alone and under an operator
		ap := func(x string) Expr { return p(g.argPath(x)) }
		calls := []Expr{
			call("len", p("xs")), call("len", p("ss")), call("len", p("s")), call("len", p("m")), call("len", p("e")),
			call("upper", p("s")), call("lower", p("h")), call("trim", p("s")), call("int", p("num")), call("int", p("a")),
			call("string", p("a")), call("string", ap("f")), call("string", p("s")), call("upper", ls("abc", "d")), call("upper", ls("abc", "s")),
			call("title", p("m.inner.s")), call("greet", p("s")), call("greet", ls("x1", "d")), call("ctxup", p("h")),
			call("add", p("a"), p("b")), call("add", p("a"), li("1")), call("sum", p("a"), li("1"), p("b")),
			call("isBig", p("a")), call("isBig", p("b")), call("isBig", p("z")), call("neg", ap("t")), call("neg", p("u")),
			call("half", ap("f")), call("scale", ap("f"), lf("2.0")), call("pick", ap("t"), p("s"), ls("no", "d")),
		}
		for _, c := range calls {
			addE(env, c)
			v, err := eval(c, envOf(env))
			if err != nil {
				continue
			}
			switch v.(type) {
			case int:
				addE(env, bin("+", c, li("1")))
				addE(env, bin(">", c, li("2")))
			case float64:
				addE(env, bin("*", c, lf("2.0")))
			case string:
				addE(env, bin("+", c, ls("x", "d")))
				addE(env, bin("==", c, ls("ABC", "s")))
			case bool:
				addE(env, bin("&&", c, p("t")))
				addE(env, Expr{K: "not", A: []Expr{c}})
				addE(env, Expr{K: "tern", A: []Expr{c, li("1"), li("2")}})
			}
		}
		// negation of non-bool paths
		for _, l := range [][]string{intPaths, stringPaths, floatPaths} {
			for _, x := range l {
				out = append(out, g.negCase(env, x))
			}
		}
	}

	// ---- literal spellings into untyped parameters: 2.0 / 10.0 / 1e3 / 0.0 / -3.0 are float64,
	// 7 is int, in every position (direct call, call under an operator, pipe argument)
	for env := 0; env < run.Pick(1, nEnvs); env++ { // quick: environment 0
		for _, l := range append(append([]string{}, wholeFloatLits...), "0.5", "7", "-3") {
			lit := Expr{K: "float", V: l}
			if !strings.ContainsAny(l, ".e") {
				lit.K = "int"
			}
			want, _ := eval(call("typ", lit), envOf(env))
			addE(env, call("typ", lit))
			addE(env, bin("==", call("typ", lit), ls(want.(string), "s")))
			addE(env, call("kinds", lit, p("a")))
			addE(env, call("kinds", p("f"), lit))
			addE(env, bin("==", call("kinds", lit, lit), ls(want.(string)+","+want.(string), "d")))
			addE(env, call("divide", li("7"), lit))
			addE(env, call("divide", p("a"), lit))
			addE(env, bin("+", call("divide", lit, li("2")), ls("x", "d")))
			addE(env, call("sg_a", lit))
			addE(env, call("sgC_s_va", p("s"), lit, li("2"), lit))
			for _, st := range [][]Stage{
				{{F: "kinds", A: []Arg{{K: lit.K, V: l}}}}, {{F: "divide", A: []Arg{{K: lit.K, V: l}}}}, {{F: "show", A: []Arg{{K: lit.K, V: l}}}, {F: "upper"}},
				{{F: "add", A: []Arg{{K: "int", V: "1"}}}, {F: "kinds", A: []Arg{{K: lit.K, V: l}}}}, {{F: "sg_a_va", A: []Arg{{K: lit.K, V: l}, {K: "int", V: "3"}}}},
			} {
				c := Case{Fam: "pipe", Env: env, Init: "a", Stages: st}
				if v, cst, err := evalPipe(c, envOf(env)); cst == convOK && err == nil {
					out = append(out, pipeCase(env, "a", st, v))
				}
			}
		}
	}

	// ---- names that are not variables (some are names of default / registered functions): nil
	for env := 0; env < nEnvs; env++ {
		for _, x := range []string{"nope", "title", "upper", "lower", "len", "default", "json", "trim", "string", "int", "greet", "add", "isBig", "typ", "sum", "round", "abs", "max", "first", "keys"} {
			e := Expr{K: "path", V: x}
			out = append(out, Case{Fam: "absent", Env: env, E: &e, Pos: allExprPos})
		}
	}
	// ---- values printed through their own String method, struct values into func(T)
	for env := 0; env < nEnvs; env++ {
		addE(env, p("sv"))
		addE(env, bin("+", p("sv.Key"), ls("x", "d")))
		addE(env, call("recname", p("st")))
		addE(env, call("recname", p("rs[0]")))
		addE(env, bin("==", call("recname", p("st")), ls("q", "s")))
		addE(env, call("pname", p("prec")))
		for _, st := range [][]Stage{{{F: "typ"}}, {{F: "show", A: []Arg{{K: "int", V: "1"}}}}} {
			if v, cst, err := evalPipe(Case{Fam: "pipe", Env: env, Init: "sv", Stages: st}, envOf(env)); cst == convOK && err == nil {
				out = append(out, pipeCase(env, "sv", st, v))
			}
		}
		for _, init := range []string{"st", "rs[0]"} {
			st := []Stage{{F: "recname"}}
			if v, cst, err := evalPipe(Case{Fam: "pipe", Env: env, Init: init, Stages: st}, envOf(env)); cst == convOK && err == nil {
				out = append(out, pipeCase(env, init, st, v))
			}
		}
	}

	// ---- paths in vuego's own syntax as whole expressions, every environment
	for env := 0; env < nEnvs; env++ {
		for _, x := range ownPaths {
			out = append(out, pathCase(env, x))
		}
	}

	// ---- strings with blanks against literals spelled with the same / different blanks
	for env := 0; env < nEnvs; env++ {
		for i, x := range blankPaths {
			lits := append([]string{blanks[env][i]}, blankLits...)
			for j, l := range lits {
				q := []string{"d", "s"}[(i+j)%2]
				addE(env, bin("==", p(x), ls(l, q)))
				addE(env, bin("!=", p(x), ls(l, q)))
			}
			addE(env, Expr{K: "tern", A: []Expr{bin("==", p(x), ls(blanks[env][i], "s")), ls("Y", "s"), ls("N", "s")}})
			addE(env, bin("+", p(x), ls("a  b", "d")))
		}
		for _, z := range zeroLedStrs {
			addE(env, call("int", p(z)))
			addE(env, bin("+", call("int", p(z)), li("1")))
			addE(env, call("add", p(z), li("1")))
		}
	}

	// ---- variables named like template functions: alone and under every kind of operator
	fs := func(x string) Expr { return ls(x, "s") }
	addFn := func(e Expr) {
		ec := e
		if c, ok := g.finishExpr(Case{Fam: "expr", Env: fnEnv, E: &ec}); ok {
			out = append(out, c)
		}
	}
	for _, x := range append(append([]string{}, fnIntPaths...), fnStringPaths...) {
		addFn(p(x))
		out = append(out, g.negCase(fnEnv, x))
	}
	for _, x := range fnStringPaths {
		for _, e := range []Expr{
			{K: "tern", A: []Expr{bin("==", p(x), fs("x")), fs("Y"), fs("N")}},
			{K: "tern", A: []Expr{bin("==", p(x), ls("Hello", "d")), p(x), ls("N", "d")}},
			bin("==", p(x), ls("post", "d")), bin("!=", p(x), p("s")), bin("<", p(x), p("h")),
			bin("+", p(x), ls("x", "d")), bin("+", p("s"), p(x)),
			bin("&&", bin("!=", p(x), fs("")), p("t")),
			call("upper", p(x)), bin("==", call("upper", p(x)), ls("HELLO", "d")), call("greet", p(x)),
		} {
			addFn(e)
		}
	}
	for _, x := range fnIntPaths {
		for _, e := range []Expr{
			bin("+", p(x), li("1")), bin("-", p("a"), p(x)), bin("*", p(x), p(x)), bin("%", p("a"), bin("+", p(x), li("1"))), bin("/", p(x), li("2")),
			bin(">", p(x), li("2")), bin("==", p(x), p("b")), bin("<=", p(x), p(x)),
			bin("*", p(x), lf("0.5")),
			{K: "tern", A: []Expr{bin(">", p(x), li("0")), p(x), li("7")}},
			{K: "not", A: []Expr{bin(">", p(x), li("1"))}},
			call("add", p(x), li("1")), call("isBig", p(x)), bin("&&", call("isBig", p(x)), p("t")),
		} {
			addFn(e)
		}
	}
	for _, x := range fnBoolPaths {
		addFn(p(x))
		for _, e := range []Expr{bin("&&", p("t"), p(x)), bin("||", p(x), p("off")), bin("==", p(x), lb("true")), {K: "not", A: []Expr{p(x)}}, {K: "tern", A: []Expr{p(x), fs("Y"), fs("N")}}, bin("&&", p(x), bin(">", p("max"), li("2")))} {
			addFn(e)
		}
	}
	addFn(bin("+", p("len"), p("string")))
	addFn(bin("==", p("title"), p("type")))
	addFn(bin("+", bin("+", p("title"), p("default")), p("type")))
	addFn(bin("||", bin("==", p("type"), fs("post")), bin(">", p("int"), p("len"))))

	// ---- pipes: every function x every admissible source of every argument
	env := envOf(0)
	srcs := map[string][]Arg{
		"string": {
			{K: "str", V: "abc", Q: "d"}, {K: "str", V: "abc", Q: "s"}, {K: "str", V: "a, b", Q: "d"}, {K: "str", V: "x,y", Q: "s"},
			{K: "str", V: "(c)", Q: "d"}, {K: "str", V: "a) b (c", Q: "s"}, {K: "str", V: "it's", Q: "d"}, {K: "str", V: `say "hi"`, Q: "s"},
			{K: "str", V: "two words", Q: "d"}, {K: "str", V: "42", Q: "d"}, {K: "str", V: "42", Q: "s"},
			{K: "int", V: "7"}, {K: "int", V: "-3"}, {K: "float", V: "1.5"},
			{K: "path", V: "h"}, {K: "path", V: "m.name"}, {K: "path", V: "a"}, {K: "path", V: "big"}, {K: "path", V: "f"},
		},
		"int": {{K: "int", V: "3"}, {K: "int", V: "-3"}, {K: "str", V: "42", Q: "d"}, {K: "str", V: "7", Q: "s"}, {K: "path", V: "b"}, {K: "path", V: "num"}, {K: "path", V: "big"}, {K: "path", V: "m.k"},
			{K: "str", V: "010", Q: "d"}, {K: "str", V: "08", Q: "s"}, {K: "str", V: "007", Q: "d"}, {K: "str", V: "0", Q: "s"}, {K: "path", V: "z10"}, {K: "path", V: "z08"}, {K: "path", V: "z007"}, {K: "path", V: "z0s"}},
		"uint": {{K: "int", V: "3"}, {K: "str", V: "42", Q: "d"}, {K: "str", V: "010", Q: "s"}, {K: "str", V: "08", Q: "d"}, {K: "str", V: "007", Q: "s"}, {K: "str", V: "0", Q: "d"},
			{K: "path", V: "b"}, {K: "path", V: "num"}, {K: "path", V: "big"}, {K: "path", V: "z10"}, {K: "path", V: "z08"}},
		"float64": {{K: "float", V: "0.5"}, {K: "int", V: "2"}, {K: "str", V: "2.5", Q: "d"}, {K: "str", V: "7", Q: "s"}, {K: "path", V: "g"}, {K: "path", V: "a"}, {K: "path", V: "num"}, {K: "path", V: "big"},
			{K: "str", V: "010", Q: "d"}, {K: "str", V: "08", Q: "s"}, {K: "path", V: "z10"}, {K: "path", V: "z08"}},
		"bool": {{K: "bool", V: "true"}, {K: "bool", V: "false"}, {K: "path", V: "t"}, {K: "path", V: "u"}, {K: "path", V: "m.ok"}},
		"any": {{K: "str", V: "abc", Q: "d"}, {K: "str", V: "two words", Q: "s"}, {K: "int", V: "7"}, {K: "float", V: "1.5"}, {K: "bool", V: "true"},
			{K: "path", V: "a"}, {K: "path", V: "f"}, {K: "path", V: "s"}, {K: "path", V: "t"}, {K: "path", V: "big"}},
	}
	srcs["int64"] = srcs["int"]
	for _, l := range srcs {
		for i := range l {
			if l[i].K == "path" {
				l[i].V = g.argPath(l[i].V)
			}
		}
	}
	if !g.open[fQVar] {
		srcs["string"] = append(srcs["string"], Arg{K: "str", V: "a", Q: "d"}, Arg{K: "str", V: "s", Q: "s"})
		srcs["any"] = append(srcs["any"], Arg{K: "str", V: "h", Q: "d"})
		srcs["string"] = append(srcs["string"], Arg{K: "str", V: " x ", Q: "d"}, Arg{K: "str", V: "trail ", Q: "s"}, Arg{K: "str", V: "'q'", Q: "d"}, Arg{K: "str", V: `"q"`, Q: "s"})
	} else {
		g.excluded(fQVar)
	}
	names := append([]string{}, fnNames...)
	sort.Strings(names)
	for _, init := range pipeInits {
		cur, _ := resolve(env, init)
		for _, n := range candidates(cur) {
			f := funcs[n]
			if n == "safe" && cur == "bad" {
				continue
			}
			np := len(f.params)
			base := make([]Arg, 0, np)
			for i := 1; i < np; i++ {
				a := srcs[f.params[i]][0]
				if n == "failif" {
					a = Arg{K: "bool", V: "false"}
				}
				base = append(base, a)
			}
			emit := func(args []Arg) {
				st := Stage{F: n, A: append([]Arg{}, args...)}
				vals := []any{cur}
				for _, a := range st.A {
					vals = append(vals, argValue(a, env))
				}
				v, cst, err := f.apply(vals)
				if cst != convOK || err != nil {
					return
				}
				out = append(out, pipeCase(0, init, []Stage{st}, v))
				if _, isJSON := v.(jsonText); !isJSON {
					// the same stage followed by a type observer: conversions must not leak a different type
					v2, _, _ := funcs["typ"].apply([]any{v})
					out = append(out, pipeCase(0, init, []Stage{st, {F: "typ"}}, v2))
				}
			}
			if f.variadic && np >= 2 {
				emit(base[:np-2])
			}
			emit(base)
			// vary one argument at a time over all its sources (init fixed to limit the product)
			if init == "a" || init == "s" || init == "num" || init == "f" || init == "t" || init == "big" || init == "z10" {
				for i := 1; i < np; i++ {
					if n == "failif" {
						continue
					}
					for _, a := range srcs[f.params[i]][1:] {
						args := append([]Arg{}, base...)
						args[i-1] = a
						emit(args)
						if f.variadic && i == np-1 {
							emit(append(args, a))
						}
					}
				}
			}
		}
	}

	// ---- errors: every kind x function, pipe form and call form
	addErr := func(why, fn, init string, args []Arg, callForm bool, prefix ...Stage) {
		c := Case{Fam: "err", Env: 0, Why: why, ErrFn: fn, Call: callForm}
		bad := Stage{F: fn, A: args}
		if callForm {
			bad.A = append([]Arg{{K: "path", V: init}}, args...)
			c.Stages = []Stage{bad}
		} else {
			c.Init = init
			c.Stages = append(append([]Stage{}, prefix...), bad)
		}
		c.Pos = g.errPositions(callForm)
		out = append(out, c)
		if callForm {
			// the same failing call under a leading negation, under !( … ), and as the right
			// operand of || / && after a leading !x: every position must still fail
			for i, w := range append(append([]string{}, errWraps...), "inner", "innerop", "pipein") {
				wc := c
				wc.Wrap, wc.WrapX = wrapFor(env, w, len(out)+i)
				wc = g.finishErrForm(wc, len(out)+i)
				if wc.Wrap == "" && len(wc.Stages) == 1 {
					continue // the form lies in the region of an open finding
				}
				wc.Pos = g.wrapPositions(wc)
				if len(wc.Pos) > 0 {
					out = append(out, wc)
				}
			}
		}
	}
	for _, form := range []bool{false, true} {
		for _, u := range unknownNames {
			addErr("unknown", u, "s", nil, form)
			addErr("unknown", u, "a", []Arg{{K: "int", V: "1"}}, form)
		}
		for _, n := range names {
			f := funcs[n]
			if f.variadic {
				continue
			}
			okInit := map[string]string{"string": "s", "int": "a", "int64": "a", "uint": "a", "float64": "f", "bool": "t", "any": "s"}[f.params[0]]
			if pp, ok := ptrPaths[f.params[0]]; ok {
				okInit = pp[0]
			}
			if f.params[0] == "rec" {
				okInit = "st"
			}
			np := len(f.params)
			one := func(pt string) Arg {
				if pt == "bool" {
					return Arg{K: "bool", V: "false"}
				}
				if pp, ok := ptrPaths[pt]; ok {
					return Arg{K: "path", V: pp[0]}
				}
				if pt == "rec" {
					return Arg{K: "path", V: "st"}
				}
				return srcs[pt][0]
			}
			var more []Arg
			for i := 1; i < np; i++ {
				more = append(more, one(f.params[i]))
			}
			addErr("arity", n, okInit, append(append([]Arg{}, more...), one(f.params[np-1])), form)
			if np > 1 {
				addErr("arity", n, okInit, more[:len(more)-1], form)
			}
		}
		for _, n := range []string{"add", "isBig", "dbl64", "half", "scale", "sum", "failif", "ctxadd", "neg", "pick"} {
			f := funcs[n]
			var more []Arg
			for i := 1; i < len(f.params); i++ {
				if f.params[i] == "bool" {
					more = append(more, Arg{K: "bool", V: "false"})
				} else {
					more = append(more, srcs[f.params[i]][0])
				}
			}
			for _, init := range []string{"ss", "xs", "m"} {
				addErr("conversion", n, init, more, form)
			}
			if f.params[0] != "bool" {
				addErr("conversion", n, "s", more, form)
			}
		}
		// texts that are not decimal numbers: piped, and as a quoted / variable argument
		for _, n := range []string{"add", "isBig", "dbl64", "udbl", "half", "scale", "sum", "ctxadd"} {
			f := funcs[n]
			var more []Arg
			for i := 1; i < len(f.params); i++ {
				more = append(more, srcs[f.params[i]][0])
			}
			for _, init := range badNumPaths {
				v, _ := resolve(env, init)
				if _, st := convert(v, f.params[0]); st == convImpossible {
					addErr("conversion", n, init, more, form)
				}
			}
			if len(f.params) > 1 {
				okInit := map[string]string{"int": "a", "float64": "f"}[f.params[0]]
				for i, l := range badNumLits {
					if _, st := convert(l, f.params[1]); st == convImpossible {
						addErr("conversion", n, okInit, []Arg{{K: "str", V: l, Q: []string{"d", "s"}[i%2]}}, form)
						addErr("conversion", n, okInit, []Arg{{K: "path", V: badNumPaths[i]}}, form)
					}
				}
			}
		}
		addErr("conversion", "add", "a", []Arg{{K: "path", V: "ss"}}, form)
		addErr("conversion", "scale", "f", []Arg{{K: "path", V: "m"}}, form)
		addErr("conversion", "add", "a", []Arg{{K: "str", V: "abc", Q: "d"}}, form)
		addErr("returned", "safe", "bad", nil, form)
		addErr("returned", "failif", "a", []Arg{{K: "bool", V: "true"}}, form)
	}
	// two faults in one chain: the left-most failing function is the one the error names
	firsts := []struct {
		why, init string
		st        Stage
	}{
		{"returned", "bad", Stage{F: "safe"}}, {"returned", "a", Stage{F: "failif", A: []Arg{{K: "bool", V: "true"}}}},
		{"arity", "s", Stage{F: "add"}}, {"arity", "s", Stage{F: "greet", A: []Arg{{K: "str", V: "x", Q: "d"}}}}, {"arity", "a", Stage{F: "add", A: []Arg{{K: "int", V: "1"}, {K: "int", V: "2"}}}},
		{"conversion", "ss", Stage{F: "add", A: []Arg{{K: "int", V: "1"}}}}, {"conversion", "xs", Stage{F: "isBig"}}, {"conversion", "hx", Stage{F: "dbl64"}},
		{"unknown", "s", Stage{F: "nosuch"}}, {"unknown", "a", Stage{F: "zzFilter", A: []Arg{{K: "int", V: "1"}}}},
	}
	for i, f := range firsts {
		for k := 0; k < 8; k++ {
			second := secondFault(f.st.F, k)
			if second.F == f.st.F {
				continue
			}
			for _, mid := range [][]Stage{nil, {{F: "upper"}}} {
				c := Case{Fam: "err", Env: (i + k) % nEnvs, Why: f.why, ErrFn: f.st.F, Init: f.init, Pos: pipePos}
				c.Stages = append(append([]Stage{f.st}, mid...), second)
				out = append(out, c)
			}
		}
	}
	addErr("returned", "safe", "bad", nil, false, Stage{F: "lower"})
	addErr("unknown", "nosuch", "s", nil, false, Stage{F: "upper"}, Stage{F: "lower"})
	addErr("conversion", "add", "s", []Arg{{K: "int", V: "1"}}, false, Stage{F: "upper"})
	return out
}
