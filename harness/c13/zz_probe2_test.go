package c13

import (
	"fmt"
	"testing"
)

func TestZProbe2(t *testing.T) {
	exprs := []string{
		`s | upper`, `h | lower | title`, `s | wrap("a", "b")`, `s | wrap('x1', "y2")`, `s | wrap("a, b", "(c)")`, `s | wrap("it's", 'say "hi"')`,
		`s | wrap(" x ", "y")`, `s | wrap("42", "true")`, `s | anyf`, `a | anyf`, `s | wrap(h, e)`, `s | joinv`, `s | joinv("p", 'q')`, `s | joinv(h, 1, 2.5, true)`,
		`a | greet`, `f | greet`, `t | greet`, `big | greet`, `num | add(1)`, `a | add(num)`, `a | add("3")`, `a | half`, `num | half`, `"x" | greet`,
		`a | i64`, `num | i64`, `big | i64`, `t | neg`, `"true" | neg`, `s | ctxf`, `s | ctxf | upper | wrap("<", ">")`,
		`e | default("fb")`, `e | default('fb')`, `e | default(h)`, `e | default(42)`, `s | default("fb")`, `missing | default("fb")`,
		`xs | len`, `s | len`, `m | len`, `num | int`, `f | int`, `a | string`, `f | string`, `xs | json`, `m.in | json`, `s | json`, `a | type`, `f | type`, `s | type`,
		`a | anyf`, `f | anyf`, `t | anyf`, `xs | anyf`, `s | anyf("x")`, `m.name | upper`, `xs[1] | add(2)`, `st.Name | upper`, `m["name"] | upper`, `m['name'] | upper`,
		`s | nosuch`, `s | upper | nosuch(1)`, `s | greet("x")`, `s | add`, `ss | add(1)`, `s | fails`, `s | upper | fails | lower`, `nosuch(s)`, `add(a)`, `add(ss, 1)`, `fails(s)`,
		`s | add(1)`, `f | add(1)`, `2.5 | add(1)`, `a | wrap(1, 2)`, `a | wrap(1.5, true)`,
		`a | add(1) | add(2) | add(3)`, `s | upper | lower | title`, `a | string | len`, `s | len | add(2)`,
	}
	for _, e := range exprs {
		tpl := fmt.Sprintf(`<i>{{ %s }}</i><b :data-x="%s"></b>`, e, htmlq(e))
		fmt.Printf("%-40s %s\n", e, prs(tpl))
	}
	for _, e := range []string{`s | nosuch`, `s | add`, `ss | add(1)`, `s | fails`, `nosuch(s)`, `add(a)`, `fails(s)`, `s | upper`, `s | greet`, `greet(s)`} {
		for _, pos := range []string{`<b :data-x="%s"></b>`, `<p v-if="%s">IF</p><p v-else>ELSE</p>`, `<q v-if="u">n</q><q v-else-if="%s">EIF</q><q v-else>EELSE</q>`, `<s v-show="%s">S</s>`} {
			fmt.Printf("%-20s %-30s %s\n", e, pos[:12], prs(fmt.Sprintf(pos, htmlq(e))))
		}
	}
}
