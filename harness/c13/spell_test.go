package c13

// The spacing dimension: the same tree / chain written with every spelling of the blanks
// outside string literals must give the same value in every position.

import (
	"strings"

	"pgregory.net/rapid"
)

// respell draws a spelling for the case; the documented style stays the most frequent.
func respell(t *rapid.T, c Case) Case {
	if c.Fam != "expr" && c.Fam != "pipe" {
		return c
	}
	if rapid.IntRange(0, 1).Draw(t, "respell") == 0 {
		return c
	}
	normal := c.Text()
	c.Spell = pick(t, "spelling", spellings[1:])
	if c.Text() == normal {
		c.Spell = ""
	}
	return c
}

// enumSpellings: a fixed set of shapes (every ternary form, the symbolic operators, calls with
// several arguments, nestings, chains with arguments) x every spelling.
func (g *gen) enumSpellings() []Case {
	var out []Case
	tern := func(c, x, y Expr) Expr { return Expr{K: "tern", A: []Expr{c, x, y}} }
	not := func(x Expr) Expr { return Expr{K: "not", A: []Expr{x}} }
	shapes := []Expr{
		// ternaries without any other operator (condition: variable, negation, call)
		tern(p("t"), ls("yes", "s"), ls("no", "s")), tern(p("u"), ls("yes", "d"), ls("no", "d")), tern(p("off"), ls("yes", "s"), ls("no", "s")),
		tern(p("m.ok"), p("a"), p("b")), tern(p("t"), li("1"), li("2")), tern(p("u"), lf("0.5"), lf("1.5")), tern(p("st.Ok"), p("s"), p("h")),
		tern(not(p("t")), ls("yes", "s"), ls("no", "s")), tern(call("isBig", p("a")), ls("big", "s"), ls("small", "s")), tern(call("neg", p("u")), p("s"), ls("x", "d")),
		tern(p("t"), tern(p("u"), li("1"), li("2")), li("3")), tern(p("u"), li("1"), tern(p("t"), li("2"), li("3"))),
		tern(p("t"), ls("a b", "s"), ls("c:d", "s")), tern(p("bs[0]"), p("xs[1]"), p("m['k']")),
		// ternaries over operators
		tern(bin(">", p("a"), p("b")), ls("gt", "s"), ls("le", "s")), tern(bin("==", p("s"), ls("abc", "s")), li("1"), li("2")), tern(bin("&&", p("t"), p("u")), p("a"), p("b")),
		tern(bin("||", p("t"), p("u")), bin("+", p("a"), li("1")), bin("*", p("b"), li("2"))),
		// symbolic operators
		bin("==", p("a"), li("7")), bin("!=", p("a"), p("b")), bin("<=", p("a"), p("b")), bin(">=", p("a"), li("7")), bin("==", p("s"), ls("abc", "d")), bin("!=", p("h"), ls("x", "s")),
		bin("&&", p("t"), p("u")), bin("||", p("t"), p("u")), bin("&&", not(p("u")), p("t")), not(bin("||", p("u"), p("off"))),
		bin("&&", bin("==", p("a"), li("7")), bin("!=", p("s"), ls("", "s"))), bin("||", bin(">=", p("b"), p("a")), bin("<=", p("z"), li("0"))),
		bin("==", bin("+", p("a"), p("b")), li("10")), bin(">=", bin("*", p("a"), li("2")), bin("-", p("b"), li("1"))), bin("==", bin("+", p("s"), ls("x", "d")), ls("abcx", "s")),
		// arithmetic and < > (one plain blank always stays next to the operator)
		bin("+", p("a"), p("b")), bin("-", p("a"), li("1")), bin("*", bin("+", p("a"), p("b")), li("2")), bin("%", p("a"), li("3")), bin("<", p("a"), p("b")), bin(">", p("f"), p("g")), bin("+", p("s"), p("h")),
		// calls
		call("add", p("a"), li("1")), call("sum", p("a"), li("1"), p("b")), call("pick", p("m.ok"), p("s"), ls("no", "d")), call("scale", p("m.rate"), lf("2.0")),
		bin("==", call("add", p("a"), p("b")), li("10")), bin("&&", call("isBig", p("a")), p("t")), bin("+", call("sum", p("a"), li("1"), li("2")), li("1")),
		tern(bin(">", call("len", p("xs")), li("2")), call("upper", p("s")), call("lower", p("h"))),
	}
	chains := []Case{
		{Init: "s", Stages: []Stage{{F: "upper"}}},
		{Init: "h", Stages: []Stage{{F: "lower"}, {F: "title"}}},
		{Init: "s", Stages: []Stage{{F: "wrap", A: []Arg{{K: "str", V: "x", Q: "s"}, {K: "str", V: "y", Q: "d"}}}}},
		{Init: "s", Stages: []Stage{{F: "upper"}, {F: "wrap", A: []Arg{{K: "str", V: "a, b", Q: "d"}, {K: "path", V: "h"}}}, {F: "len"}}},
		{Init: "a", Stages: []Stage{{F: "add", A: []Arg{{K: "int", V: "1"}}}, {F: "sum", A: []Arg{{K: "path", V: "b"}, {K: "int", V: "2"}, {K: "str", V: "3", Q: "s"}}}}},
		{Init: "e", Stages: []Stage{{F: "default", A: []Arg{{K: "str", V: "fb", Q: "s"}}}, {F: "upper"}}},
		{Init: "s", Stages: []Stage{{F: "joinv", A: []Arg{{K: "path", V: "h"}, {K: "int", V: "1"}, {K: "float", V: "2.5"}}}}},
		{Init: "xs", Stages: []Stage{{F: "len"}, {F: "add", A: []Arg{{K: "path", V: "a"}}}, {F: "string"}}},
		{Init: "m.ok", Stages: []Stage{{F: "pick", A: []Arg{{K: "str", V: "on", Q: "s"}, {K: "str", V: "off", Q: "s"}}}}},
	}
	for _, sp := range spellings[1:] {
		for env := 0; env < 2; env++ {
			for _, e := range shapes {
				ec := e
				c, ok := g.finishExpr(Case{Fam: "expr", Env: env, E: &ec})
				if !ok {
					continue
				}
				if _, err := eval(ec, envOf(env)); err != nil {
					continue // an operand constraint (% with a negative side) does not hold in this environment
				}
				c.Spell = sp
				if c.Text() != ec.Text() {
					out = append(out, c)
				}
			}
			for _, ch := range chains {
				c := ch
				c.Fam, c.Env = "pipe", env
				v, st, err := evalPipe(c, envOf(env))
				if st != convOK || err != nil {
					continue
				}
				c = pipeCase(env, c.Init, c.Stages, v)
				c.Spell = sp
				out = append(out, c)
			}
		}
	}
	return out
}

// enumOverride: the program registers its own upper / lower / trim / title / len (via WithFuncs
// and via NewVue().Funcs): pipe form, call form, nested, under operators, in every position.
func (g *gen) enumOverride() []Case {
	overrideOn = true
	defer func() { overrideOn = false }()
	var out []Case
	shapes := []Expr{
		call("upper", p("s")), call("lower", p("h")), call("trim", p("pad")), call("title", p("m.inner.s")), call("len", p("xs")), call("len", p("s")),
		bin("+", call("upper", p("s")), ls("x", "d")), bin(">", call("len", p("xs")), li("2")), bin("==", call("lower", p("h")), ls("lo:hello", "s")),
		call("upper", call("lower", p("h"))), call("greet", call("upper", p("s"))), call("isBig", call("len", p("xs"))), call("len", call("upper", p("s"))),
		{K: "tern", A: []Expr{bin(">", call("len", p("ss")), li("100")), ls("Y", "s"), ls("N", "s")}}, bin("&&", bin("==", call("trim", p("s")), p("s")), p("t")),
	}
	chains := [][]Stage{{{F: "upper"}}, {{F: "lower"}}, {{F: "trim"}}, {{F: "len"}}, {{F: "upper"}, {F: "lower"}}, {{F: "upper"}, {F: "len"}}, {{F: "trim"}, {F: "upper"}, {F: "greet"}},
		{{F: "upper"}, {F: "wrap", A: []Arg{{K: "str", V: "x", Q: "s"}, {K: "str", V: "y", Q: "d"}}}}, {{F: "greet"}, {F: "upper"}}, {{F: "lower"}, {F: "typ"}}}
	for env := 0; env < nEnvs; env++ {
		for k, deliver := range []string{"", "fragment", "assign"} {
			for _, x := range shapes {
				if _, err := eval(x, envOf(env)); err != nil {
					continue
				}
				xc := x
				if c, ok := g.finishExpr(Case{Fam: "expr", Env: env, E: &xc}); ok {
					c.Override, c.Deliver = true, deliver
					out = append(out, c)
				}
			}
			for i, st := range chains {
				init := []string{"s", "h", "pad", "m.name"}[(i+k)%4]
				if v, cst, err := evalPipe(Case{Fam: "pipe", Env: env, Init: init, Stages: st}, envOf(env)); cst == convOK && err == nil {
					c := pipeCase(env, init, st, v)
					c.Override, c.Deliver = true, deliver
					out = append(out, c)
				}
			}
			out = append(out, func() Case {
				e := p("m.inner.s")
				c := Case{Fam: "pipe", Env: env, Init: "m.inner.s", Stages: []Stage{{F: "title"}}, Pos: pipePos, Override: true, Deliver: deliver}
				_ = e
				return c
			}())
		}
	}
	return out
}

// enumEquivalents: bare names and a few shapes x every template spelling; ==/!= shapes with
// 1..3 strict operators; chains in call form.
func (g *gen) enumEquivalents() []Case {
	var out []Case
	shapes := []Expr{p("a"), p("s"), p("t"), p("e"), p("z"), p("m.k"), p("m.inner.s"), p("xs[1]"), p("st.Name"), p("us[1].name"),
		bin("!=", p("a"), p("b")), bin("==", p("s"), ls("abc", "s")), bin("&&", bin("!=", p("a"), li("7")), bin("==", p("m.name"), p("s"))),
		{K: "tern", A: []Expr{bin("!=", p("m.k"), li("5")), ls("Y", "s"), ls("N", "d")}}, bin("==", bin("!=", p("a"), p("b")), bin("==", p("t"), p("u"))),
		bin("+", p("m.k"), p("st.Age")), call("upper", p("m.inner.s")), bin("!=", call("len", p("xs")), li("3"))}
	for env := 0; env < 2; env++ {
		for _, tv := range tplSpellings {
			for i, x := range shapes {
				xc := x
				c, ok := g.finishExpr(Case{Fam: "expr", Env: env, E: &xc})
				if !ok {
					continue
				}
				c.Tpl = tv
				if hasEq(x) {
					c.Strict = 1 + i%3
				}
				out = append(out, c)
				if tv == "" || tv == "pad-lf" {
					for _, k := range []string{"s", "d"} {
						kc := c
						kc.Keys = k
						if kc.Text() != c.Text() {
							out = append(out, kc)
						}
					}
				}
			}
		}
	}
	return out
}

// enumNonASCII: text beyond ASCII before and after operators (== === !== &&) and pipe
// separators, as literals, map keys, function arguments and piped values, in long chains.
func (g *gen) enumNonASCII() []Case {
	var out []Case
	for env := 0; env < nEnvs; env++ {
		e := envOf(env)
		for i, path := range nonASCIIPaths {
			v, _ := resolve(e, path)
			same := ls(v.(string), []string{"s", "d"}[i%2])
			other := ls(nonASCIILits[(i+3)%len(nonASCIILits)], "s")
			for _, x := range []Expr{
				p(path), bin("==", p(path), same), bin("!=", p(path), same), bin("==", same, p(path)), bin("==", p(path), other), bin("!=", other, p(path)),
				bin("&&", bin("==", p(path), same), bin("!=", p("nj"), ls("東京", "d"))), bin("||", bin("!=", p(path), same), bin("==", p("ni"), ls("İstanbul", "s"))),
				{K: "tern", A: []Expr{bin("==", p(path), same), ls("já", "s"), ls("ne", "s")}}, bin("+", p(path), ls("→é", "d")), bin("+", ls("ß", "s"), p(path)),
				call("upper", p(path)), call("lower", p(path)), call("len", p(path)), call("greet", p(path)), bin("==", call("upper", p(path)), ls(strings.ToUpper(v.(string)), "s")),
				call("wrap", p(path), ls("«", "s"), ls("»", "d")),
			} {
				for _, strict := range []int{0, 1, 2} {
					if strict > 0 && !hasEq(x) {
						continue
					}
					xc := x
					if c, ok := g.finishExpr(Case{Fam: "expr", Env: env, E: &xc}); ok {
						c.Strict = strict
						out = append(out, c)
					}
				}
			}
			for _, st := range [][]Stage{
				{{F: "default", A: []Arg{{K: "str", V: "Zürich", Q: "s"}}}, {F: "upper"}}, {{F: "upper"}, {F: "trim"}}, {{F: "upper"}, {F: "lower"}, {F: "greet"}},
				{{F: "wrap", A: []Arg{{K: "str", V: "é", Q: "d"}, {K: "str", V: "東", Q: "s"}}}, {F: "upper"}, {F: "lower"}}, {{F: "joinv", A: []Arg{{K: "str", V: "😀", Q: "s"}, {K: "path", V: "nq"}}}, {F: "len"}},
				{{F: "greet"}, {F: "wrap", A: []Arg{{K: "path", V: "ni"}, {K: "str", V: "ß, é", Q: "d"}}}, {F: "typ"}}, {{F: "len"}, {F: "add", A: []Arg{{K: "int", V: "1"}}}},
			} {
				if fv, cst, err := evalPipe(Case{Fam: "pipe", Env: env, Init: path, Stages: st}, e); cst == convOK && err == nil {
					c := pipeCase(env, path, st, fv)
					out = append(out, c, callForm(c))
				}
			}
		}
	}
	return out
}
