package c13

// Pointer-typed data reached through PATHS (struct fields, typed maps, slices of pointers, and
// pointers stored directly in the root map) handed to registered functions whose parameters
// are pointer types. docs/funcmap.md lists func(*time.Time) string among the supported
// signatures and says that values from template data retain their original types.

import (
	"fmt"
	"strings"
	"time"
	"verif/internal/run"
)

// Post holds optional (pointer) fields.
type Post struct {
	Title       string
	PublishedAt *time.Time
	Views       *int
	Slug        *string
	Author      *Rec
	Missing     *int // nil
}

func ptrData(id int) map[string]any {
	when := time.Date(2024, 3, 9+id, 10, 30, 0, 0, time.UTC)
	views, slug, k, one, two := 41+id, []string{"abc", "zed", "Mixed"}[id%3], 6+id, 1, 2
	when2 := when.AddDate(1, 0, 0)
	return map[string]any{
		"post": Post{Title: "T", PublishedAt: &when, Views: &views, Slug: &slug, Author: &Rec{Name: "ann", Age: 30 + id}},
		"pm":   map[string]*int{"k": &k},
		"pt":   map[string]*time.Time{"at": &when2},
		"ptrs": []*int{&one, &two},
		"ts":   &when2, "pi": &two, "prec": &Rec{Name: "rr", Age: 5},
	}
}

// pointer paths by parameter type
var ptrPaths = map[string][]string{
	"*time":   {"post.PublishedAt", "pt.at", `pt["at"]`, "ts"},
	"*int":    {"post.Views", "pm.k", `pm['k']`, "ptrs[0]", "ptrs[1]", "pi"},
	"*string": {"post.Slug"},
	"*rec":    {"post.Author", "prec"},
}

var ptrFuncs = map[string]string{"*time": "fmtDate", "*int": "incp", "*string": "upp", "*rec": "pname"}

var ptrTypeOrder = []string{"*time", "*int", "*string", "*rec"}

func ptrTypeOf(v any) string {
	switch v.(type) {
	case *time.Time:
		return "*time"
	case *int:
		return "*int"
	case *string:
		return "*string"
	case *Rec:
		return "*rec"
	}
	return ""
}

func isPtr(v any) bool { return ptrTypeOf(v) != "" }

func registerPointerFuncs() {
	reg(&fnSpec{name: "fmtDate", params: []string{"*time"},
		impl: func(t *time.Time) string { return t.Format("2006-01-02") },
		call: func(in []any) (any, error) { return in[0].(*time.Time).Format("2006-01-02"), nil }})
	reg(&fnSpec{name: "incp", params: []string{"*int"},
		impl: func(p *int) int { return *p + 1 },
		call: func(in []any) (any, error) { return *in[0].(*int) + 1, nil }})
	reg(&fnSpec{name: "upp", params: []string{"*string"},
		impl: func(p *string) string { return strings.ToUpper(*p) },
		call: func(in []any) (any, error) { return strings.ToUpper(*in[0].(*string)), nil }})
	reg(&fnSpec{name: "pname", params: []string{"*rec"},
		impl: func(p *Rec) string { return fmt.Sprintf("%s/%d", p.Name, p.Age) },
		call: func(in []any) (any, error) { p := in[0].(*Rec); return fmt.Sprintf("%s/%d", p.Name, p.Age), nil }})
	reg(&fnSpec{name: "addp", params: []string{"*int", "int"},
		impl: func(p *int, n int) int { return *p + n },
		call: func(in []any) (any, error) { return *in[0].(*int) + in[1].(int), nil }})
}

// enumPointers: every pointer path x its function, in pipe form, call form, under an operator,
// as a second stage, and through the type-identity function.
func (g *gen) enumPointers() []Case {
	var out []Case
	for env := 0; env < run.Pick(1, nEnvs); env++ { // quick: environment 0
		e := envOf(env)
		addE := func(x Expr) {
			xc := x
			if c, ok := g.finishExpr(Case{Fam: "expr", Env: env, E: &xc}); ok {
				out = append(out, c)
			}
		}
		addP := func(init string, st ...Stage) {
			c := Case{Fam: "pipe", Env: env, Init: init, Stages: st}
			if v, cst, err := evalPipe(c, e); cst == convOK && err == nil {
				out = append(out, pipeCase(env, init, st, v))
			}
		}
		for _, pt := range ptrTypeOrder {
			f := ptrFuncs[pt]
			for _, path := range ptrPaths[pt] {
				addP(path, Stage{F: f})
				addP(path, Stage{F: f}, Stage{F: "typ"})
				addP(path, Stage{F: "typ"})
				addP(path, Stage{F: "typ"}, Stage{F: "upper"})
				addE(call(f, p(path)))
				addE(call("typ", p(path)))
				v, _ := eval(call(f, p(path)), e)
				switch x := v.(type) {
				case int:
					addE(bin("+", call(f, p(path)), li("1")))
					addE(bin(">", call(f, p(path)), li("2")))
					addP(path, Stage{F: f}, Stage{F: "add", A: []Arg{{K: "int", V: "1"}}})
					addP(path, Stage{F: "addp", A: []Arg{{K: "path", V: "a"}}})
					addE(call("addp", p(path), li("3")))
				case string:
					addE(bin("==", call(f, p(path)), ls(x, "s")))
					addE(bin("+", call(f, p(path)), ls("x", "d")))
					addE(Expr{K: "tern", A: []Expr{bin("==", call(f, p(path)), ls(x, "s")), ls("Y", "s"), ls("N", "s")}})
					addP(path, Stage{F: f}, Stage{F: "upper"})
				}
				tv, _ := eval(call("typ", p(path)), e)
				addE(bin("==", call("typ", p(path)), ls(tv.(string), "s")))
			}
		}
	}
	return out
}
