package c13

// Built-ins of the expression library that are not template functions (abs, max, min, first,
// last, keys, values) and calls nested directly inside another call. Conditions and operator
// expressions are evaluated by the expression library, which knows them; the model gives them
// their obvious meaning. keys / values only occur inside len(...) (their order is unspecified).

import (
	"fmt"
	"reflect"
	"sort"
	"verif/internal/run"

	"pgregory.net/rapid"
)

var exprLibNames = []string{"abs", "first", "keys", "last", "max", "min", "values"}

func isNumber(v any) bool { _, i := v.(int); _, f := v.(float64); return i || f }

func registerExprLib() {
	lib := func(name string, params []string, accepts func(in []any) bool, call func(in []any) (any, error)) {
		funcs[name] = &fnSpec{name: name, params: params, builtin: true, shared: true, exprlib: true,
			call: func(in []any) (any, error) {
				if !accepts(in) {
					return nil, fmt.Errorf("model: %s outside its domain: %v", name, in)
				}
				return call(in)
			}}
	}
	lib("abs", []string{"any"}, func(in []any) bool { return isNumber(in[0]) }, func(in []any) (any, error) {
		if i, ok := in[0].(int); ok {
			if i < 0 {
				return -i, nil
			}
			return i, nil
		}
		f := in[0].(float64)
		if f < 0 {
			return -f, nil
		}
		return f, nil
	})
	two := func(in []any) bool { _, a := in[0].(int); _, b := in[1].(int); return a && b }
	lib("max", []string{"any", "any"}, two, func(in []any) (any, error) { return max(in[0].(int), in[1].(int)), nil })
	lib("min", []string{"any", "any"}, two, func(in []any) (any, error) { return min(in[0].(int), in[1].(int)), nil })
	nonEmpty := func(in []any) bool {
		rv := reflect.ValueOf(in[0])
		return rv.IsValid() && rv.Kind() == reflect.Slice && rv.Len() > 0
	}
	lib("first", []string{"any"}, nonEmpty, func(in []any) (any, error) { return reflect.ValueOf(in[0]).Index(0).Interface(), nil })
	lib("last", []string{"any"}, nonEmpty, func(in []any) (any, error) {
		rv := reflect.ValueOf(in[0])
		return rv.Index(rv.Len() - 1).Interface(), nil
	})
	isMap := func(in []any) bool { _, ok := in[0].(map[string]any); return ok }
	lib("keys", []string{"any"}, isMap, func(in []any) (any, error) {
		var ks []string
		for k := range in[0].(map[string]any) {
			ks = append(ks, k)
		}
		sort.Strings(ks)
		return ks, nil
	})
	lib("values", []string{"any"}, isMap, func(in []any) (any, error) {
		return make([]string, len(in[0].(map[string]any))), nil // only its length is ever used
	})
}

// nestedArg replaces a leaf argument of type typ by a call producing that type (depth 1).
func (g *gen) nestedArg(t *rapid.T, typ string) (Expr, bool) {
	if g.fn || g.cat != nil {
		return Expr{}, false // the built-in names are bound as variables there / other catalogues
	}
	il := func() Expr { return g.leaf(t, "int", true, false) }
	switch typ {
	case "int":
		switch rapid.IntRange(0, 5).Draw(t, "nestint") {
		case 0:
			return call("abs", il()), true
		case 1:
			return call("max", il(), il()), true
		case 2:
			return call("min", il(), il()), true
		case 3:
			return call("len", p(pick(t, "nestlist", []string{"xs", "ss", "fs", "m", "s"}))), true
		case 4:
			return call(pick(t, "fl", []string{"first", "last"}), p("xs")), true
		default:
			return call("add", il(), il()), true
		}
	case "string":
		switch rapid.IntRange(0, 3).Draw(t, "neststr") {
		case 0:
			return call(pick(t, "fl", []string{"first", "last"}), p("ss")), true
		case 1:
			return call("upper", g.leaf(t, "string", true, false)), true
		case 2:
			return call("lower", g.leaf(t, "string", true, false)), true
		default:
			return call("string", il()), true
		}
	case "float":
		return call("abs", g.leaf(t, "float", true, false)), true
	case "list", "map":
		return call(pick(t, "kv", []string{"keys", "values"}), p(pick(t, "nestmap", []string{"m", "m.inner", "us[0]"}))), true
	}
	return Expr{}, false
}

// wholeCallRegion: the whole expression is one call that calls an expression-library built-in
// or takes a call as an argument (region of C13-whole-expression-call-bypasses-evaluator).
func wholeCallRegion(e Expr) bool {
	if e.K != "call" {
		return false
	}
	if f := funcs[e.V]; f != nil && f.exprlib {
		return true
	}
	for _, a := range e.A {
		in := a
		for in.K == "paren" {
			in = in.A[0]
		}
		if in.K == "call" {
			return true
		}
	}
	return false
}

// enumLate: expressions calling a registered function whose name is also a library built-in
// with another arity (sum, round) - first evaluated while it is NOT registered, then registered
// on the same engine; afterwards every position must use the registered function.
func (g *gen) enumLate() []Case {
	var out []Case
	shapes := []Expr{
		bin("+", call("sum", p("a"), li("1"), p("b")), li("1")), bin(">", call("sum", p("a"), li("1")), li("2")), call("isBig", call("sum", p("a"), li("1"), p("b"))),
		bin("*", call("round", p("f"), li("1")), p("b")), bin(">", call("round", p("m.rate"), li("2")), lf("1.0")), call("half", call("round", p("f"), li("0"))),
		{K: "tern", A: []Expr{bin(">", call("sum", p("b"), li("2")), li("4")), ls("Y", "s"), ls("N", "s")}},
		bin("&&", bin(">=", call("round", p("g"), li("1")), lf("0.5")), p("t")),
		call("sum", p("a"), li("1"), p("b")), call("round", p("f"), li("1")),
		bin("+", call("greet", p("s")), ls("x", "d")), bin("&&", call("isBig", p("a")), p("t")), call("add", p("a"), li("1")),
	}
	for env := 0; env < nEnvs; env++ {
		for _, x := range shapes {
			if _, err := eval(x, envOf(env)); err != nil {
				continue
			}
			xc := x
			if c, ok := g.finishExpr(Case{Fam: "expr", Env: env, E: &xc}); ok {
				c.Late = true
				out = append(out, c)
			}
		}
	}
	return out
}

// enumExprLib: built-in and nested calls alone, under operators, and in ternaries.
func (g *gen) enumExprLib() []Case {
	var out []Case
	nested := []Expr{
		call("len", call("keys", p("m"))), call("len", call("values", p("m.inner"))), call("max", call("abs", p("n")), li("2")), call("add", call("abs", p("n")), li("1")),
		call("isBig", call("max", p("a"), p("b"))), call("upper", call("first", p("ss"))), call("abs", call("min", p("n"), p("b"))), call("max", call("len", p("xs")), call("abs", p("n"))),
		call("greet", call("string", call("abs", p("n")))), call("min", call("max", p("a"), p("b")), li("5")), call("upper", call("lower", p("h"))), call("add", call("len", p("xs")), li("1")),
		call("len", call("upper", p("s"))), call("isBig", call("len", call("keys", p("m")))), call("sum", call("abs", p("n")), call("first", p("xs")), li("1")), call("pick", call("isBig", p("a")), call("upper", p("s")), ls("no", "s")),
	}
	plain := []Expr{call("abs", p("n")), call("abs", p("g")), call("max", p("a"), p("b")), call("min", p("a"), li("3")), call("first", p("xs")), call("last", p("xs")), call("first", p("ss")), call("last", p("ss"))}
	for env := 0; env < run.Pick(1, nEnvs); env++ { // quick: environment 0
		e := envOf(env)
		add := func(x Expr) {
			if _, err := eval(x, e); err != nil {
				return
			}
			xc := x
			if c, ok := g.finishExpr(Case{Fam: "expr", Env: env, E: &xc}); ok {
				out = append(out, c)
			}
		}
		for _, x := range append(append([]Expr{}, nested...), plain...) {
			add(x)
			v, err := eval(x, e)
			if err != nil {
				continue
			}
			switch v.(type) {
			case int:
				add(bin("+", x, li("1")))
				add(bin(">", x, li("2")))
				add(bin("==", x, Expr{K: "int", V: fmt.Sprint(v)}))
				add(Expr{K: "tern", A: []Expr{bin(">=", x, li("3")), ls("Y", "s"), ls("N", "s")}})
			case float64:
				add(bin("*", x, lf("2.0")))
				add(bin("<", x, lf("2.5")))
			case string:
				add(bin("+", x, ls("x", "d")))
				add(bin("==", x, ls(v.(string), "s")))
				add(Expr{K: "tern", A: []Expr{p("t"), x, ls("no", "s")}})
			case bool:
				add(bin("&&", x, p("t")))
				add(Expr{K: "not", A: []Expr{x}})
				add(Expr{K: "tern", A: []Expr{x, li("1"), li("2")}})
			}
		}
		add(bin("+", call("abs", p("n")), call("max", p("a"), p("b"))))
		add(bin("==", call("first", p("xs")), call("last", p("xs"))))
		add(bin("&&", bin(">", call("len", call("keys", p("m"))), li("2")), p("t")))
	}
	return out
}
