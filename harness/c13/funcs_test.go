package c13

// The function set: documented built-ins (modelled from docs/funcmap.md, never called through
// vuego) and a registered set covering the parameter types of the property's quantifier.
// apply() is "the registered functions applied directly" with the documented conversions.

import (
	"encoding/json"
	"errors"
	"fmt"
	"math"
	"reflect"
	"regexp"
	"sort"
	"strconv"
	"strings"
	"sync"

	"github.com/titpetric/vuego"
)

type convStatus int

const (
	convOK          convStatus = iota // documented / unambiguous conversion
	convImpossible                    // no conversion exists: the render must fail
	convUnspecified                   // behaviour not documented: never generated
	convArity                         // wrong argument count: the render must fail
)

// parameter types: string int int64 float64 bool any
type fnSpec struct {
	name     string
	params   []string // without the leading *VueContext
	variadic bool     // last parameter is ...T
	ctx      bool     // Go function takes a leading *vuego.VueContext
	retErr   bool     // Go function returns (T, error)
	builtin  bool     // documented built-in (not registered by the check)
	sig      bool     // member of the generated signature product (sig_test.go)
	exprlib  bool     // built-in of the expression library that is not a template function (exprlib_test.go)
	shared   bool     // built-in that conditions/operators can also call today (see finding C13-func-in-condition)
	impl     any      // the Go function registered with vuego (nil for built-ins)
	call     func(in []any) (any, error)
	accepts  func(v any) bool // extra documented-domain restriction on the piped (first) value
}

// convert models the documented conversions: identical types pass, numeric strings become
// numbers, numbers become their decimal text for string parameters, ints widen.
func convert(v any, pt string) (any, convStatus) {
	if pt == "any" {
		return v, convOK
	}
	if pt == "rec" {
		if _, ok := v.(Rec); ok {
			return v, convOK
		}
		return nil, convUnspecified
	}
	if strings.HasPrefix(pt, "*") {
		// pointer parameters take the pointer the data holds ("values from template data retain
		// their original types"); anything else into a pointer parameter is not documented
		if v != nil && ptrTypeOf(v) == pt {
			return v, convOK
		}
		return nil, convUnspecified
	}
	if isPtr(v) {
		return nil, convUnspecified // a pointer into a value parameter: not documented
	}
	switch pt {
	case "string":
		switch x := v.(type) {
		case string:
			return x, convOK
		case int:
			return strconv.Itoa(x), convOK
		case int64:
			return strconv.FormatInt(x, 10), convOK
		case uint:
			return strconv.FormatUint(uint64(x), 10), convOK
		case uint64:
			return strconv.FormatUint(x, 10), convOK // also beyond MaxInt64: 18446744073709551615
		case uint32:
			return strconv.FormatUint(uint64(x), 10), convOK
		case float64:
			// "decimal text": asserted only where it is unambiguous: a fractional value whose
			// plain and shortest notations coincide (10.0 -> "10" or "10.0"? 1e21?)
			if d := strconv.FormatFloat(x, 'f', -1, 64); d == strconv.FormatFloat(x, 'g', -1, 64) && x != math.Trunc(x) {
				return d, convOK
			}
			return nil, convUnspecified
		}
		return nil, convUnspecified // bool, nil, containers -> string: not documented
	case "int", "int64", "uint", "float64":
		switch x := v.(type) {
		case int:
			if pt == "uint" && x < 0 {
				return nil, convUnspecified
			}
			return numTo(float64(x), int64(x), pt), convOK
		case int64:
			if pt == "uint" && x < 0 {
				return nil, convUnspecified
			}
			return numTo(float64(x), x, pt), convOK
		case uint:
			return numTo(float64(x), int64(x), pt), convOK
		case uint64, uint32:
			u := reflect.ValueOf(x).Uint()
			if pt == "float64" {
				return float64(u), convOK
			}
			if u > math.MaxInt64 {
				if pt == "uint" {
					return uint(u), convOK
				}
				return nil, convUnspecified // does not fit the signed parameter
			}
			return numTo(float64(u), int64(u), pt), convOK
		case float64:
			if pt == "float64" {
				return x, convOK
			}
			return nil, convUnspecified // float -> integer (truncation? rounding?)
		case string:
			// the documented conversion is decimal text ('string "42" to int 42'): leading zeros
			// are decimal ("010" is ten); anything a base-10 parse rejects cannot be converted
			if pt == "float64" {
				if decNum.MatchString(x) {
					f, _ := strconv.ParseFloat(x, 64)
					return f, convOK
				}
				if _, err := strconv.ParseFloat(x, 64); err != nil {
					return nil, convImpossible
				}
				return nil, convUnspecified // "1_000", "inf", hexadecimal floats
			}
			if decInt.MatchString(x) {
				n, err := strconv.ParseInt(x, 10, 64)
				if err != nil || (pt == "uint" && (x[0] == '-' || x[0] == '+')) {
					return nil, convUnspecified // a signed text ("-0", "+5") into an unsigned parameter
				}
				return numTo(float64(n), n, pt), convOK
			}
			if decNum.MatchString(x) {
				return nil, convUnspecified // "2.5", "1e3" -> integer
			}
			return nil, convImpossible // "abc", "0x10", "1_000", " 42", ""
		case bool, nil:
			return nil, convUnspecified
		}
		return nil, convImpossible // slices, maps, structs -> number
	case "bool":
		switch x := v.(type) {
		case bool:
			return x, convOK
		case string, int, int64, uint, uint64, uint32, float64, nil:
			return nil, convUnspecified
		}
		return nil, convImpossible // containers -> bool
	}
	return nil, convUnspecified
}

var (
	decInt = regexp.MustCompile(`^[+-]?[0-9]+$`)
	decNum = regexp.MustCompile(`^[+-]?([0-9]+(\.[0-9]*)?|\.[0-9]+)([eE][+-]?[0-9]+)?$`)
)

func numTo(f float64, n int64, pt string) any {
	switch pt {
	case "uint":
		return uint(n)
	case "int":
		return int(n)
	case "int64":
		return n
	}
	return f
}

// apply converts the arguments to the parameter types and calls the Go function directly.
func (f *fnSpec) apply(args []any) (any, convStatus, error) {
	np := len(f.params)
	if f.variadic {
		if len(args) < np-1 {
			return nil, convArity, nil
		}
	} else if len(args) != np {
		return nil, convArity, nil
	}
	in := make([]any, len(args))
	for i, a := range args {
		pt := f.params[min(i, np-1)]
		c, st := convert(a, pt)
		if st != convOK {
			return nil, st, nil
		}
		in[i] = c
	}
	if f.accepts != nil && len(args) > 0 && !f.accepts(args[0]) {
		return nil, convUnspecified, nil
	}
	v, err := f.call(in)
	return v, convOK, err
}

func isLowerAlpha(s string) bool {
	for _, c := range s {
		if !(c >= 'a' && c <= 'z' || c == ' ') {
			return false
		}
	}
	return true
}

func isStr(v any) bool { _, ok := v.(string); return ok }

func isScalar(v any) bool {
	switch v.(type) {
	case string, int, int64, uint, float64, bool:
		return true
	}
	return false
}

func isContainer(v any) bool {
	if v == nil {
		return false
	}
	k := reflect.ValueOf(v).Kind()
	return k == reflect.Slice || k == reflect.Map
}

func titleWords(s string) string {
	w := strings.Fields(s)
	for i := range w {
		w[i] = strings.ToUpper(w[i][:1]) + w[i][1:]
	}
	return strings.Join(w, " ")
}

var errBoom = errors.New("boom")

// funcs is the model of every callable function, by template name.
var funcs = map[string]*fnSpec{}

func reg(f *fnSpec) { funcs[f.name] = f }

func init() {
	// ---- documented built-ins (docs/funcmap.md "Built-in Functions"); inputs outside the
	// documented domain (upper of a number, len of an int, title of mixed case, …) are
	// unspecified and excluded through accepts.
	reg(&fnSpec{name: "upper", params: []string{"any"}, builtin: true, shared: true, accepts: isStr,
		call: func(in []any) (any, error) { return ovr("UP:") + strings.ToUpper(in[0].(string)), nil }})
	reg(&fnSpec{name: "lower", params: []string{"any"}, builtin: true, shared: true, accepts: isStr,
		call: func(in []any) (any, error) { return ovr("lo:") + strings.ToLower(in[0].(string)), nil }})
	reg(&fnSpec{name: "trim", params: []string{"any"}, builtin: true, shared: true, accepts: isStr,
		call: func(in []any) (any, error) { return ovr("tr:") + strings.TrimSpace(in[0].(string)), nil }})
	reg(&fnSpec{name: "title", params: []string{"any"}, builtin: true,
		accepts: func(v any) bool { s, ok := v.(string); return ok && isLowerAlpha(s) },
		call:    func(in []any) (any, error) { return ovr("Ti:") + titleWords(in[0].(string)), nil }})
	reg(&fnSpec{name: "escape", params: []string{"any"}, builtin: true, // harmless strings only: identity
		accepts: func(v any) bool { s, ok := v.(string); return ok && !strings.ContainsAny(s, `<>&'"`) },
		call:    func(in []any) (any, error) { return in[0], nil }})
	reg(&fnSpec{name: "default", params: []string{"any", "any"}, builtin: true,
		accepts: func(v any) bool { return v == nil || isStr(v) },
		call: func(in []any) (any, error) {
			if in[0] == nil || in[0] == "" {
				return in[1], nil
			}
			return in[0], nil
		}})
	reg(&fnSpec{name: "len", params: []string{"any"}, builtin: true, shared: true,
		accepts: func(v any) bool { return isStr(v) || isContainer(v) },
		call: func(in []any) (any, error) {
			if x, ok := in[0].(string); ok {
				return len(x) + ovrN(), nil
			}
			if isContainer(in[0]) {
				return reflect.ValueOf(in[0]).Len() + ovrN(), nil
			}
			return nil, fmt.Errorf("model: len of %T", in[0])
		}})
	reg(&fnSpec{name: "int", params: []string{"any"}, builtin: true, shared: true,
		accepts: func(v any) bool { // unsigned input: not documented (today: 0), not asserted
			isU := false
			switch v.(type) {
			case uint, uint64, uint32:
				isU = true
			}
			_, st := convert(v, "int")
			return st == convOK && !isU
		},
		call: func(in []any) (any, error) { v, _ := convert(in[0], "int"); return v, nil }})
	reg(&fnSpec{name: "string", params: []string{"any"}, builtin: true, shared: true,
		accepts: func(v any) bool { _, st := convert(v, "string"); _, isB := v.(bool); return st == convOK || isB },
		call:    func(in []any) (any, error) { return fmt.Sprint(in[0]), nil }})
	reg(&fnSpec{name: "json", params: []string{"any"}, builtin: true,
		accepts: func(v any) bool { return isScalar(v) || isContainer(v) },
		call: func(in []any) (any, error) {
			b, err := json.Marshal(in[0])
			return jsonText(b), err
		}})

	// ---- registered set: one function per parameter type of the quantifier
	reg(&fnSpec{name: "greet", params: []string{"string"},
		impl: func(s string) string { return "hi" + s },
		call: func(in []any) (any, error) { return "hi" + in[0].(string), nil }})
	reg(&fnSpec{name: "wrap", params: []string{"string", "string", "string"},
		impl: func(s, l, r string) string { return "[" + l + "]" + s + "[" + r + "]" },
		call: func(in []any) (any, error) {
			return "[" + in[1].(string) + "]" + in[0].(string) + "[" + in[2].(string) + "]", nil
		}})
	reg(&fnSpec{name: "add", params: []string{"int", "int"},
		impl: func(a, b int) int { return a + b },
		call: func(in []any) (any, error) { return in[0].(int) + in[1].(int), nil }})
	reg(&fnSpec{name: "isBig", params: []string{"int"},
		impl: func(n int) bool { return n > 5 },
		call: func(in []any) (any, error) { return in[0].(int) > 5, nil }})
	reg(&fnSpec{name: "dbl64", params: []string{"int64"},
		impl: func(n int64) int64 { return 2 * n },
		call: func(in []any) (any, error) { return 2 * in[0].(int64), nil }})
	reg(&fnSpec{name: "udbl", params: []string{"uint"},
		impl: func(n uint) uint { return 2 * n },
		call: func(in []any) (any, error) { return 2 * in[0].(uint), nil }})
	reg(&fnSpec{name: "half", params: []string{"float64"},
		impl: func(f float64) float64 { return f / 2 },
		call: func(in []any) (any, error) { return in[0].(float64) / 2, nil }})
	reg(&fnSpec{name: "scale", params: []string{"float64", "float64"},
		impl: func(f, k float64) float64 { return f * k },
		call: func(in []any) (any, error) { return in[0].(float64) * in[1].(float64), nil }})
	reg(&fnSpec{name: "neg", params: []string{"bool"},
		impl: func(b bool) bool { return !b },
		call: func(in []any) (any, error) { return !in[0].(bool), nil }})
	reg(&fnSpec{name: "pick", params: []string{"bool", "string", "string"},
		impl: func(b bool, x, y string) string {
			if b {
				return x
			}
			return y
		},
		call: func(in []any) (any, error) {
			if in[0].(bool) {
				return in[1], nil
			}
			return in[2], nil
		}})
	reg(&fnSpec{name: "typ", params: []string{"any"},
		impl: func(v any) string { return fmt.Sprintf("%T", v) },
		call: func(in []any) (any, error) { return fmt.Sprintf("%T", in[0]), nil }})
	// round is also a built-in of the expression library, with ANOTHER arity (one argument)
	reg(&fnSpec{name: "round", params: []string{"float64", "int"},
		impl: roundTo,
		call: func(in []any) (any, error) { return roundTo(in[0].(float64), in[1].(int)), nil }})
	reg(&fnSpec{name: "recname", params: []string{"rec"}, // a struct VALUE parameter
		impl: func(r Rec) string { return r.Name + "#" + strconv.Itoa(r.Age) },
		call: func(in []any) (any, error) { r := in[0].(Rec); return r.Name + "#" + strconv.Itoa(r.Age), nil }})
	reg(&fnSpec{name: "kinds", params: []string{"any", "any"},
		impl: func(v, w any) string { return fmt.Sprintf("%T,%T", v, w) },
		call: func(in []any) (any, error) { return fmt.Sprintf("%T,%T", in[0], in[1]), nil }})
	reg(&fnSpec{name: "divide", params: []string{"any", "any"}, accepts: func(v any) bool { return isNumber(v) },
		impl: divideAny,
		call: func(in []any) (any, error) { return divideAny(in[0], in[1]), nil }})
	reg(&fnSpec{name: "show", params: []string{"any", "any"}, accepts: func(v any) bool { return !isPtr(v) }, // a pointer prints as an address
		impl: func(v, w any) string { return fmt.Sprint(v) + "-" + fmt.Sprint(w) },
		call: func(in []any) (any, error) { return fmt.Sprint(in[0]) + "-" + fmt.Sprint(in[1]), nil }})
	reg(&fnSpec{name: "joinv", params: []string{"string"}, variadic: true,
		impl: func(parts ...string) string { return "(" + strings.Join(parts, "+") + ")" },
		call: func(in []any) (any, error) {
			var p []string
			for _, x := range in {
				p = append(p, x.(string))
			}
			return "(" + strings.Join(p, "+") + ")", nil
		}})
	reg(&fnSpec{name: "sum", params: []string{"int", "int"}, variadic: true,
		impl: func(first int, more ...int) int {
			for _, m := range more {
				first += m
			}
			return first
		},
		call: func(in []any) (any, error) {
			t := 0
			for _, x := range in {
				t += x.(int)
			}
			return t, nil
		}})
	reg(&fnSpec{name: "safe", params: []string{"string"}, retErr: true,
		impl: func(s string) (string, error) {
			if s == "bad" {
				return "", errBoom
			}
			return s + "ok", nil
		},
		call: func(in []any) (any, error) {
			if in[0].(string) == "bad" {
				return nil, errBoom
			}
			return in[0].(string) + "ok", nil
		}})
	reg(&fnSpec{name: "failif", params: []string{"int", "bool"}, retErr: true,
		impl: func(n int, fail bool) (int, error) {
			if fail {
				return 0, errBoom
			}
			return n + 1, nil
		},
		call: func(in []any) (any, error) {
			if in[1].(bool) {
				return nil, errBoom
			}
			return in[0].(int) + 1, nil
		}})
	reg(&fnSpec{name: "ctxup", params: []string{"string"}, ctx: true,
		impl: func(c *vuego.VueContext, s string) string {
			if c == nil {
				return "NILCTX"
			}
			return "c" + strings.ToUpper(s)
		},
		call: func(in []any) (any, error) { return "c" + strings.ToUpper(in[0].(string)), nil }})
	reg(&fnSpec{name: "ctxadd", params: []string{"int", "int64"}, ctx: true, retErr: true,
		impl: func(c *vuego.VueContext, a int, b int64) (int64, error) {
			if c == nil {
				return 0, errors.New("nil context")
			}
			return int64(a) + b, nil
		},
		call: func(in []any) (any, error) { return int64(in[0].(int)) + in[1].(int64), nil }})

	for k := range funcs {
		fnNames = append(fnNames, k)
	}
	sort.Strings(fnNames)
	registerPointerFuncs()
	fnNames = append(fnNames, "addp", "fmtDate", "incp", "pname", "upp")
	sort.Strings(fnNames)
	registerExprLib() // after fnNames: never a pipe stage, never in the per-function error enumeration
	// the signature product (sig_test.go) is generated by its own family and is not part of
	// fnNames (random pipe stages, per-function error enumeration)
	registerSignatures()
}

// jsonText marks a value as JSON text: compared by meaning (key order and spacing of the
// "JSON string" are not documented).
type jsonText string

// funcMap returns the registered functions for vuego.WithFuncs.
func funcMap() vuego.FuncMap {
	funcMapOnce.Do(func() {
		funcMapAll = vuego.FuncMap{}
		for n, f := range funcs {
			if !f.builtin && !f.sig {
				funcMapAll[n] = f.impl
			}
		}
	})
	return funcMapAll // vuego copies the entries into its own map
}

var sigNameRe = regexp.MustCompile(`sgC?_\w*`)

// funcMapFor adds the members of the signature product that the expression text mentions (the
// whole product has several hundred functions; registering all of them for every case only
// costs time).
func funcMapFor(text string) vuego.FuncMap {
	base := funcMap()
	names := sigNameRe.FindAllString(text, -1)
	if len(names) == 0 && !overrideOn {
		return base
	}
	m := make(vuego.FuncMap, len(base)+len(names)+5)
	for k, v := range base {
		m[k] = v
	}
	if overrideOn {
		for k, v := range overrides() {
			m[k] = v
		}
	}
	for _, n := range names {
		if f, ok := funcs[n]; ok && f.sig {
			m[n] = f.impl
		}
	}
	return m
}

var (
	funcMapOnce sync.Once
	funcMapAll  vuego.FuncMap
)

// divideAny is type-sensitive like user code often is: two ints divide as integers, anything
// else as floats (7 / 2 = 3, 7 / 2.0 = 3.5); the divisor is never zero by construction.
func divideAny(a, b any) string {
	ai, aok := a.(int)
	bi, bok := b.(int)
	if aok && bok {
		if bi == 0 {
			return "div0"
		}
		return fmt.Sprintf("int:%d", ai/bi)
	}
	f := func(v any) float64 {
		switch x := v.(type) {
		case int:
			return float64(x)
		case int64:
			return float64(x)
		case float64:
			return x
		}
		return 0
	}
	if f(b) == 0 {
		return "div0"
	}
	return fmt.Sprintf("float:%v", f(a)/f(b))
}

func roundTo(x float64, digits int) float64 {
	if digits < 0 || digits > 6 {
		digits = 0 // keeps the result finite for any argument the generator draws
	}
	p := math.Pow(10, float64(digits))
	return math.Round(x*p) / p
}

// overrideOn: the case registers its own upper / lower / trim / title / len, REPLACING the
// default functions of those names with distinguishable behaviour (a prefix, +100). Set for the
// duration of one generation / one check; both are sequential.
var overrideOn bool

func ovr(prefix string) string {
	if overrideOn {
		return prefix
	}
	return ""
}

func ovrN() int {
	if overrideOn {
		return 100
	}
	return 0
}

// overrides are the replacements handed to vuego when overrideOn.
func overrides() vuego.FuncMap {
	str := func(prefix string, f func(string) string) func(any) any {
		return func(v any) any {
			if s, ok := v.(string); ok {
				return prefix + f(s)
			}
			return v
		}
	}
	return vuego.FuncMap{
		"upper": str("UP:", strings.ToUpper), "lower": str("lo:", strings.ToLower), "trim": str("tr:", strings.TrimSpace), "title": str("Ti:", titleWords),
		"len": func(v any) int {
			rv := reflect.ValueOf(v)
			switch rv.Kind() {
			case reflect.String, reflect.Slice, reflect.Array, reflect.Map:
				return rv.Len() + 100
			}
			return 100
		},
	}
}
