package c13

// Shadowing: the same name bound in the root data and in one or two enclosing v-for scopes with
// different values (including inner zero / empty / false / nil against an outer non-zero value);
// the expression is evaluated inside the innermost scope in every position and the reference
// evaluator resolves innermost-first.

import (
	"sort"
	"strconv"

	"pgregory.net/rapid"

	"verif/internal/run"
)

// simpleVars lists the shadowable root variables that e reads as bare names, sorted.
func simpleVars(e Expr) []string {
	set := map[string]bool{}
	e.walk(func(x Expr, _ int) {
		if x.K == "path" {
			if _, ok := scopeVars[x.V]; ok {
				set[x.V] = true
			}
		}
	})
	var out []string
	for v := range set {
		out = append(out, v)
	}
	sort.Strings(out)
	return out
}

func isLit(e Expr) bool { return e.K == "int" || e.K == "float" || e.K == "str" || e.K == "bool" }

// nilSafe reports whether e has a conventional meaning when variable v is nil: v alone, !v,
// v compared for (in)equality with a literal, and a ternary over such a comparison with
// literal branches. Anything else (nil + 1, upper(nil), nil < 2) is unspecified.
func nilSafe(e Expr, v string) bool {
	isV := func(x Expr) bool { return x.K == "path" && x.V == v }
	eq := func(x Expr) bool {
		return x.K == "bin" && (x.V == "==" || x.V == "!=") && ((isV(x.A[0]) && isLit(x.A[1])) || (isLit(x.A[0]) && isV(x.A[1])))
	}
	switch {
	case isV(e), eq(e):
		return true
	case e.K == "not":
		return isV(e.A[0])
	case e.K == "tern":
		return eq(e.A[0]) && isLit(e.A[1]) && isLit(e.A[2])
	}
	return false
}

// scoped returns c inside the given scopes if the model can evaluate every iteration (a
// rebinding may break a constraint established for the root value, e.g. a divisor becoming 0).
func scoped(c Case, scope []Bind) (Case, bool) {
	c.Scope = scope
	for _, it := range c.iterations(envOf(c.Env)) {
		if c.Fam == "expr" {
			if _, err := eval(*c.E, it.env); err != nil {
				return c, false
			}
		}
	}
	return c, true
}

// addScope wraps an expression case into one or two scopes rebinding a variable it reads.
func (g *gen) addScope(t *rapid.T, c Case) Case {
	if c.E == nil {
		return c
	}
	vars := simpleVars(*c.E)
	if len(vars) == 0 {
		return c
	}
	v := pick(t, "scopevar", vars)
	typ := scopeVars[v]
	lists := append([]string{}, scopeLists[typ]...)
	if nilSafe(*c.E, v) {
		lists = append(lists, nilLists[typ]...)
		lists = append(lists, nilLists[typ]...) // drawn often
	}
	scope := []Bind{{Var: v, List: pick(t, "scopelist", lists)}}
	if rapid.IntRange(0, 3).Draw(t, "nested") == 0 {
		// a middle scope between the root and the innermost binding
		scope = append([]Bind{{Var: v, List: pick(t, "outerlist", scopeLists[typ])}}, scope...)
	}
	if sc, ok := scoped(c, scope); ok {
		return sc
	}
	return c
}

// enumScopes: every shadowable variable x every list of its type (nil lists for the nil-safe
// shapes) x a fixed set of shapes, single and nested.
func (g *gen) enumScopes() []Case {
	var out []Case
	var names []string
	for v := range scopeVars {
		names = append(names, v)
	}
	sort.Strings(names)
	add := func(env int, e Expr, scope []Bind) {
		ec := e
		c, ok := g.finishExpr(Case{Fam: "expr", Env: env, E: &ec})
		if !ok {
			return
		}
		if sc, ok := scoped(c, scope); ok {
			out = append(out, sc)
		}
	}
	// quick: environment 0 only; thorough: all three
	for env := 0; env < run.Pick(1, nEnvs); env++ {
		root := envOf(env)
		for _, v := range names {
			typ := scopeVars[v]
			var outerLit Expr // a literal equal to the ROOT value: must not match an inner nil / other value
			var typed []Expr
			switch typ {
			case "int":
				outerLit = Expr{K: "int", V: itoa(root[v].(int))}
				typed = []Expr{bin("+", p(v), li("1")), bin(">", p(v), li("2")), bin("*", p(v), p(v)), call("add", p(v), li("1")), call("isBig", p(v)), bin("+", p(v), lf("0.5"))}
			case "float":
				outerLit = lf("0.5")
				typed = []Expr{bin("+", p(v), lf("0.5")), bin("<", p(v), lf("2.5")), call("half", p(v))}
			case "string":
				outerLit = ls(root[v].(string), "s")
				typed = []Expr{bin("+", p(v), ls("x", "d")), bin("<", p(v), ls("m", "s")), call("upper", p(v)), call("len", p(v)), call("greet", p(v))}
			default:
				outerLit = lb("true")
				if !root[v].(bool) {
					outerLit = lb("false")
				}
				typed = []Expr{bin("&&", p(v), p("m.ok")), bin("||", p(v), p("off")), call("neg", p(v)), {K: "tern", A: []Expr{p(v), li("1"), li("2")}}}
			}
			safe := []Expr{
				p(v),
				bin("==", p(v), outerLit), bin("!=", p(v), outerLit), bin("==", outerLit, p(v)),
				{K: "tern", A: []Expr{bin("==", p(v), outerLit), ls("Y", "s"), ls("N", "s")}},
			}
			for _, l := range scopeLists[typ] {
				for _, e := range append(append([]Expr{}, safe...), typed...) {
					add(env, e, []Bind{{v, l}})
				}
				out = append(out, scopedNeg(g.negCase(env, v), []Bind{{v, l}}))
			}
			for _, l := range nilLists[typ] {
				for _, e := range safe {
					add(env, e, []Bind{{v, l}})
					add(env, e, []Bind{{v, scopeLists[typ][0]}, {v, l}}) // nil innermost, non-nil in the middle
				}
				out = append(out, scopedNeg(g.negCase(env, v), []Bind{{v, l}}))
			}
			// nested: innermost non-nil inside a nil scope and inside another non-nil scope
			for _, e := range append([]Expr{p(v)}, typed[:2]...) {
				add(env, e, []Bind{{v, nilLists[typ][len(nilLists[typ])-1]}, {v, scopeLists[typ][0]}})
				add(env, e, []Bind{{v, scopeLists[typ][0]}, {v, scopeLists[typ][len(scopeLists[typ])-1]}})
			}
		}
	}
	return out
}

func scopedNeg(c Case, scope []Bind) Case {
	c.Scope = scope
	return c
}

func itoa(n int) string { return strconv.Itoa(n) }
