package c17

import (
	"fmt"
	"reflect"
	"sort"

	"github.com/titpetric/vuego"
	"pgregory.net/rapid"

	"verif/internal/ev"
	"verif/internal/run"
)

// Family 1b: several stacks over ONE caller-owned root map. NewStack(m) and
// NewStackWithData(m, data) take the caller's map as their root scope; the model owns that
// aliasing: the caller's map is compared with its model after every op, and so is every sibling
// stack (Lookup, Resolve, EnvMap, typed getters, ForEach) after ops on another one.
//   - Push / Pop / Set inside a pushed scope never touch the caller's map or a sibling;
//   - Pop with only the root left empties THAT stack's view ("pops to empty"): the caller's map
//     and the siblings keep every binding, and later Sets on the popped stack stay its own;
//   - Set at the root of a stack still attached to the caller's map writes into that map (what the
//     implementation does today: siblings see it). Should an implementation copy the root map
//     instead (caller's map unchanged by the Set), the case stops there, unasserted.
//   - a Copy is detached from the caller's map.

// SOp is one op of family 1b on stack S: pushnil, push (M), pop, set (N, V), copy (adds a stack).
type SOp struct {
	S int           `json:"s"`
	K string        `json:"k"`
	N string        `json:"n,omitempty"`
	V *VD           `json:"v,omitempty"`
	M map[string]VD `json:"m,omitempty"`
}

// SharedCase: Map is the caller's map; Stacks lists how each initial stack is built over it:
// "new" NewStack(m) · "data" NewStackWithData(m, rootT{...}) · "pdata" the same with a pointer.
type SharedCase struct {
	Map    map[string]VD `json:"map"`
	Stacks []string      `json:"stacks"`
	Ops    []SOp         `json:"ops"`
}

type smStack struct {
	scopes   []map[string]any
	attached bool
	own      map[string]any
	data     any
}

var sharedNames = []string{"x", "y", "l", "Plain", "tagged"}

func (st *smStack) lookup(n string, mm map[string]any) (any, bool) {
	for i := len(st.scopes) - 1; i >= 0; i-- {
		if v, ok := st.scopes[i][n]; ok {
			return v, true
		}
	}
	root := st.own
	if st.attached {
		root = mm
	}
	if v, ok := root[n]; ok {
		return v, true
	}
	if st.data != nil {
		if v, out, _ := index(st.data, Step{K: n}); out == reach {
			return v, true
		}
	}
	return nil, false
}

func (st *smStack) flatten(mm map[string]any) map[string]any {
	out := map[string]any{}
	root := st.own
	if st.attached {
		root = mm
	}
	for k, v := range root {
		out[k] = v
	}
	for _, s := range st.scopes {
		for k, v := range s {
			out[k] = v
		}
	}
	return out
}

func sharedData(kind string) any {
	r := rootT{Plain: "P", Tagged: 7, List: []int{4, 5}}
	switch kind {
	case "data":
		return r
	case "pdata":
		return &r
	}
	return nil
}

func checkShared(c SharedCase) error {
	m := buildMap(c.Map) // the caller's map, handed to every initial stack
	if m == nil {
		m = map[string]any{}
	}
	mm := buildMap(c.Map) // its model
	if mm == nil {
		mm = map[string]any{}
	}
	var stacks []*vuego.Stack
	var models []*smStack
	for _, kind := range c.Stacks {
		d := sharedData(kind)
		if d == nil {
			stacks = append(stacks, vuego.NewStack(m))
		} else {
			stacks = append(stacks, vuego.NewStackWithData(m, d))
		}
		models = append(models, &smStack{attached: true, data: sharedData(kind)})
	}
	if len(stacks) == 0 {
		return nil
	}
	compare := func(tag string) error {
		if !reflect.DeepEqual(m, mm) {
			return fmt.Errorf("%s: the caller's map is %s, want %s", tag, show(m), show(mm))
		}
		for i, s := range stacks {
			env := s.EnvMap()
			for _, n := range sharedNames {
				want, wok := models[i].lookup(n, mm)
				got, gok := s.Lookup(n)
				if err := agree(fmt.Sprintf("%s: stack#%d Lookup(%q)", tag, i, n), got, gok, want, wok, exact); err != nil {
					return err
				}
				ev, eok := env[n]
				if err := agree(fmt.Sprintf("%s: stack#%d EnvMap()[%q]", tag, i, n), ev, eok, want, wok, exact); err != nil {
					return err
				}
				out := rMissingKey
				if wok {
					out = reach
				}
				if err := checkReaders(fmt.Sprintf("%s: stack#%d", tag, i), s, n, want, out, 0); err != nil {
					return err
				}
			}
		}
		return nil
	}
	if err := compare("initially"); err != nil {
		return err
	}
	for i, op := range c.Ops {
		si := ((op.S % len(stacks)) + len(stacks)) % len(stacks)
		s, st := stacks[si], models[si]
		tag := fmt.Sprintf("after op %d (%s %s on stack#%d)", i, op.K, op.N, si)
		switch op.K {
		case "pushnil":
			s.Push(nil)
			st.scopes = append(st.scopes, map[string]any{})
		case "push":
			pm := buildMap(op.M)
			if pm == nil {
				pm = map[string]any{}
			}
			s.Push(pm)
			sc := map[string]any{}
			for k, v := range op.M {
				sc[k] = v.Go()
			}
			st.scopes = append(st.scopes, sc)
		case "pop":
			s.Pop()
			if len(st.scopes) > 0 {
				st.scopes = st.scopes[:len(st.scopes)-1]
			} else {
				// only the root was left: this stack's view becomes empty; the caller's map is not
				// this stack's to clear
				st.attached = false
				st.own = map[string]any{}
			}
		case "set":
			var v, mv any
			if op.V != nil {
				v, mv = op.V.Go(), op.V.Go()
			}
			s.Set(op.N, v)
			switch {
			case len(st.scopes) > 0:
				st.scopes[len(st.scopes)-1][op.N] = mv
			case st.attached:
				if got, ok := m[op.N]; ok && reflect.DeepEqual(got, mv) {
					mm[op.N] = mv // the root scope is the caller's map
				} else if reflect.DeepEqual(m, mm) {
					return nil // the implementation keeps a private root: aliasing not asserted further
				}
			default:
				st.own[op.N] = mv
			}
		case "copy":
			stacks = append(stacks, s.Copy())
			models = append(models, &smStack{own: st.flatten(mm), data: st.data})
		default:
			return fmt.Errorf("unknown op %q", op.K)
		}
		if err := compare(tag); err != nil {
			return err
		}
	}
	return nil
}

func classifyShared(c SharedCase) (bool, []string) {
	cls := map[string]bool{fmt.Sprintf("shared-map:stacks=%d", len(c.Stacks)): true}
	depth := make([]int, len(c.Stacks))
	attached := make([]bool, len(c.Stacks))
	for i := range attached {
		attached[i] = true
	}
	touched := map[int]bool{}
	for _, op := range c.Ops {
		if len(depth) == 0 {
			break
		}
		si := ((op.S % len(depth)) + len(depth)) % len(depth)
		touched[si] = true
		switch op.K {
		case "pushnil", "push":
			depth[si]++
		case "pop":
			if depth[si] > 0 {
				depth[si]--
			} else {
				if attached[si] {
					cls["shared-map:pop-below-root-of-attached-stack"] = true
				}
				attached[si] = false
			}
		case "set":
			switch {
			case depth[si] > 0:
				cls["shared-map:set-in-scope"] = true
			case attached[si]:
				cls["shared-map:set-at-shared-root"] = true
			default:
				cls["shared-map:set-at-root-after-detach"] = true
			}
		case "copy":
			cls["shared-map:copy"] = true
			depth = append(depth, 0)
			attached = append(attached, false)
		}
	}
	if len(touched) > 1 {
		cls["shared-map:ops-on-several-stacks"] = true
	}
	out := make([]string, 0, len(cls))
	for k := range cls {
		out = append(out, k)
	}
	sort.Strings(out)
	return len(c.Ops) > 0, out
}

func sharedAlphabet(pos int) []SOp {
	sv := vStr(fmt.Sprintf("v%d", pos))
	lv := vList("slice", vInt(pos), vStr("e"))
	var ops []SOp
	for s := 0; s < 2; s++ {
		ops = append(ops,
			SOp{S: s, K: "pushnil"},
			SOp{S: s, K: "push", M: map[string]VD{"x": sv}},
			SOp{S: s, K: "pop"},
			SOp{S: s, K: "set", N: "x", V: &sv},
			SOp{S: s, K: "set", N: "y", V: &lv},
		)
	}
	// a copy of stack 0 becomes stack 2 (ops on index 2 address stack 0 again while there is none)
	ops = append(ops, SOp{S: 0, K: "copy"}, SOp{S: 2, K: "pop"}, SOp{S: 2, K: "set", N: "x", V: &sv})
	return ops
}

// enumShared: every sequence of <= maxLen ops of the 13-op alphabet over two stacks sharing one
// caller map (NewStack(m) and NewStackWithData(m, struct)) and a copy.
func enumShared(rec *ev.Rec, maxLen, shard, shards int) (int, bool) {
	base := SharedCase{
		Map:    map[string]VD{"x": vStr("mx"), "l": vList("ints", vInt(1), vInt(2))},
		Stacks: []string{"new", "data"},
	}
	n := 0
	var rec1 func(prefix []SOp) bool
	rec1 = func(prefix []SOp) bool {
		if len(prefix) > 0 {
			n++
			if n%shards == shard {
				c := base
				c.Ops = append([]SOp(nil), prefix...)
				nt, cls := classifyShared(c)
				if !run.Each(rec, "sharedmap", c, nt, cls, checkShared) {
					return false
				}
			}
		}
		if len(prefix) == maxLen {
			return true
		}
		for _, op := range sharedAlphabet(len(prefix)) {
			if !rec1(append(prefix, op)) {
				return false
			}
		}
		return true
	}
	return n, rec1(nil)
}

func genShared(t *rapid.T) SharedCase {
	val := func() VD {
		switch rapid.IntRange(0, 3).Draw(t, "vk") {
		case 0:
			return vList("slice", genScalar(t), genScalar(t))
		case 1:
			return vMap("map", map[string]VD{"k": genScalar(t)})
		}
		return genScalar(t)
	}
	c := SharedCase{Map: map[string]VD{}}
	for _, n := range sharedNames {
		if rapid.Bool().Draw(t, "has:"+n) {
			c.Map[n] = val()
		}
	}
	for i, n := 0, rapid.IntRange(1, 3).Draw(t, "nstacks"); i < n; i++ {
		c.Stacks = append(c.Stacks, rapid.SampledFrom([]string{"new", "data", "pdata"}).Draw(t, "kind"))
	}
	for i, n := 0, rapid.IntRange(1, 20).Draw(t, "nops"); i < n; i++ {
		op := SOp{S: rapid.IntRange(0, 4).Draw(t, "s")}
		switch w := rapid.IntRange(0, 99).Draw(t, "op"); {
		case w < 15:
			op.K = "pushnil"
		case w < 25:
			op.K = "push"
			op.M = map[string]VD{rapid.SampledFrom(sharedNames).Draw(t, "pn"): val()}
		case w < 50:
			op.K = "pop"
		case w < 92:
			v := val()
			op.K, op.N, op.V = "set", rapid.SampledFrom(sharedNames).Draw(t, "sn"), &v
		default:
			op.K = "copy"
		}
		c.Ops = append(c.Ops, op)
	}
	return c
}
