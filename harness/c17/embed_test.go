package c17

// A struct that EMBEDS another struct, as root data and as a nested value. Go promotes the fields
// of the embedded struct: e.Pname is e.RootBase.Pname; when the outer struct has a field of the
// same name (Label) the shallower one wins. A promoted field carries its JSON tag with it
// (encoding/json lists it at the outer level), so the statement's "by field name or JSON tag"
// covers e.code as well.

type RootBase struct {
	Pname string
	Ps    []int
	Code  string `json:"code"`
	Label string // shadowed by ERoot.Label
	Val   any    `json:"val"`
}

type ERoot struct {
	RootBase
	Alias string `json:"Code"` // an own field whose JSON tag spells the Go name of a PROMOTED field
	Label string
	Own   int `json:"own"`
}

var eRootNames = []string{"Alias", "RootBase", "Pname", "Ps", "Code", "code", "Label", "Own", "own", "Val", "val"}
var rootBaseNames = []string{"Pname", "Ps", "Code", "code", "Label", "Val", "val"}

// promotedTags: JSON tags of promoted fields, per struct type (region of finding kfPromotedTag).
var eRootPromotedTags = []string{"code", "val"}

func rootBaseField(b RootBase, k string) (any, string, string) {
	switch k {
	case "Pname":
		return b.Pname, reach, ".name"
	case "Ps":
		return b.Ps, reach, ".name"
	case "Code":
		return b.Code, reach, ".name"
	case "code":
		return b.Code, reach, ".tag"
	case "Label":
		return b.Label, reach, ".name"
	case "Val":
		return b.Val, reach, ".name"
	case "val":
		return b.Val, reach, ".tag"
	}
	return nil, noField(k, rootBaseNames), ""
}

func eRootField(e ERoot, k string) (any, string, string) {
	switch k {
	case "RootBase":
		return e.RootBase, reach, ".embedded"
	case "Alias":
		return e.Alias, reach, ".name"
	case "Pname":
		return e.Pname, reach, ".promoted"
	case "Ps":
		return e.Ps, reach, ".promoted"
	case "Code":
		// e.Code is the promoted field, although the own field Alias is tagged "Code"
		return e.Code, reach, ".promoted-over-other-tag"
	case "code":
		return e.Code, reach, ".promoted-tag"
	case "Val":
		return e.Val, reach, ".promoted"
	case "val":
		return e.Val, reach, ".promoted-tag"
	case "Label":
		return e.Label, reach, ".name" // the outer, shallower field wins over RootBase.Label
	case "Own":
		return e.Own, reach, ".name"
	case "own":
		return e.Own, reach, ".tag"
	}
	return nil, noField(k, eRootNames), ""
}

// indexEmbed is the part of index() for these two struct types (after dereferencing).
func indexEmbed(cur any, k string, pfx string) (any, string, string, bool) {
	switch c := cur.(type) {
	case ERoot:
		v, o, how := eRootField(c, k)
		return v, o, pfx + "struct(embedding)" + how, true
	case RootBase:
		v, o, how := rootBaseField(c, k)
		return v, o, pfx + "struct" + how, true
	}
	return nil, "", "", false
}

// buildERoot builds VD kind "eroot": M = Pname, Ps (ints), Code, InnerLabel, Label, Own, Val.
func buildERoot(v VD) ERoot {
	e := ERoot{
		RootBase: RootBase{Pname: v.M["Pname"].S, Code: v.M["Code"].S, Label: v.M["InnerLabel"].S},
		Label:    v.M["Label"].S,
		Own:      atoi(v.M["Own"].S),
		Alias:    v.M["Alias"].S,
	}
	if ps, ok := v.M["Ps"]; ok {
		e.Ps = make([]int, len(ps.L))
		for i, x := range ps.L {
			e.Ps[i] = atoi(x.S)
		}
	}
	if val, ok := v.M["Val"]; ok {
		e.Val = val.Go()
	}
	return e
}

func vERoot(tag string) VD {
	return VD{K: "eroot", M: map[string]VD{
		"Pname": vStr("pn-" + tag), "Ps": vList("ints", vInt(1), vInt(2)), "Code": vStr("code-" + tag),
		"InnerLabel": vStr("inner-" + tag), "Label": vStr("outer-" + tag), "Own": vInt(5), "Alias": vStr("alias-" + tag),
		"Val": vMap("map", map[string]VD{"k": vStr("held by a promoted field")}),
	}}
}

var eUniverse = []string{"x", "Alias", "Pname", "Ps", "Code", "code", "Label", "Own", "own", "RootBase", "Val", "pname", "CODE"}

// eNames is the universe compared for embedding roots; while the promoted-tag finding is open the
// tag names of promoted fields stay out.
func eNames(promotedTagOpen bool) []string {
	var out []string
	for _, n := range eUniverse {
		if promotedTagOpen && (n == "code" || n == "val") {
			continue
		}
		out = append(out, n)
	}
	return out
}

// ePromoted: names bound only through promotion (region of finding kfPromotedEnv for EnvMap).
var ePromoted = []string{"Pname", "Ps", "Code", "code", "Val", "val"}
