package c17

import (
	"reflect"
	"sort"
	"strconv"
	"strings"
)

// Step is one path step: the text K (map key, decimal index, field name or JSON tag) and its
// spelling Q: 0 = ".K", 1 = "[K]" (numbers only), 2 = "['K']", 3 = `["K"]`.
type Step struct {
	K string `json:"k"`
	Q int    `json:"q,omitempty"`
}

// outcome of one oracle step / of a whole walk.
const (
	reach  = "reach"  // ordinary Go indexing reaches an element
	unspec = "unspec" // nothing in the statement settles this; the case is skipped
	// every other value is the reason for absence:
	rMissingKey  = "missing-key"
	rOutOfRange  = "out-of-range"
	rNegative    = "negative-index"
	rNonNumeric  = "non-numeric-index"
	rNilPointer  = "nil-pointer"
	rUnexported  = "unexported-field"
	rNoField     = "no-such-field"
	rIntoScalar  = "into-scalar"
	rIntoNil     = "into-nil"
	rNilEmbedded = "nil-embedded-pointer"
	rWrongCase   = "wrong-case-of-name-or-tag" // neither a Go field name nor a JSON tag, but equal to one up to case
)

// canonInt parses a canonical decimal ("0", "12", "-3"); other spellings Atoi accepts ("+1",
// "007", "-0") are left unspecified.
func canonInt(k string) (n int, numeric bool, canonical bool) {
	n, err := strconv.Atoi(k)
	if err != nil {
		return 0, false, false
	}
	return n, true, strconv.Itoa(n) == k
}

// seqIndex decides an index step into a sequence of length ln.
func seqIndex(st Step, ln int) (int, string) {
	if st.Q >= 2 {
		return 0, unspec // a quoted index (a['0']) is JavaScript, not Go
	}
	n, numeric, canon := canonInt(st.K)
	switch {
	case !numeric && decimal(st.K) && st.K[0] == '-':
		return 0, rNegative // a canonical decimal below the int range
	case !numeric && decimal(st.K):
		return 0, rOutOfRange // a canonical decimal no int can hold: beyond every length
	case !numeric:
		return 0, rNonNumeric
	case !canon:
		return 0, unspec
	case n < 0:
		return 0, rNegative
	case n >= ln:
		return 0, rOutOfRange
	}
	return n, reach
}

// deref follows pointers the way Go does for field access (and an explicit * elsewhere).
func deref(cur any) (any, string, bool) {
	thru := false
	for {
		switch p := cur.(type) {
		case *Node:
			if p == nil {
				return nil, rNilPointer, thru
			}
			cur = *p
		case **Node:
			if p == nil {
				return nil, rNilPointer, thru
			}
			cur = *p
		case *Leaf:
			if p == nil {
				return nil, rNilPointer, thru
			}
			cur = *p
		case *PLeaf:
			if p == nil {
				return nil, rNilPointer, thru
			}
			cur = *p
		case *rootT:
			if p == nil {
				return nil, rNilPointer, thru
			}
			cur = *p
		case *[]any:
			if p == nil {
				return nil, rNilPointer, thru
			}
			cur = *p
		case *map[string]any:
			if p == nil {
				return nil, rNilPointer, thru
			}
			cur = *p
		case *map[string]string:
			if p == nil {
				return nil, rNilPointer, thru
			}
			cur = *p
		case *[]int:
			if p == nil {
				return nil, rNilPointer, thru
			}
			cur = *p
		case *[]string:
			if p == nil {
				return nil, rNilPointer, thru
			}
			cur = *p
		case *[2]any:
			if p == nil {
				return nil, rNilPointer, thru
			}
			cur = *p
		case *[3]int:
			if p == nil {
				return nil, rNilPointer, thru
			}
			cur = *p
		case *int:
			if p == nil {
				return nil, rNilPointer, thru
			}
			cur = *p
		case *string:
			if p == nil {
				return nil, rNilPointer, thru
			}
			cur = *p
		case *map[int8]string:
			if p == nil {
				return nil, rNilPointer, thru
			}
			cur = *p
		case **map[uint8]string:
			if p == nil {
				return nil, rNilPointer, thru
			}
			cur = *p
		case *map[uint8]string:
			if p == nil {
				return nil, rNilPointer, thru
			}
			cur = *p
		case *map[int16]string:
			if p == nil {
				return nil, rNilPointer, thru
			}
			cur = *p
		case *map[uint16]string:
			if p == nil {
				return nil, rNilPointer, thru
			}
			cur = *p
		case *map[int32]string:
			if p == nil {
				return nil, rNilPointer, thru
			}
			cur = *p
		case *map[uint32]string:
			if p == nil {
				return nil, rNilPointer, thru
			}
			cur = *p
		case *map[int64]string:
			if p == nil {
				return nil, rNilPointer, thru
			}
			cur = *p
		case *map[uint64]string:
			if p == nil {
				return nil, rNilPointer, thru
			}
			cur = *p
		case *map[uint]string:
			if p == nil {
				return nil, rNilPointer, thru
			}
			cur = *p
		case *map[int]string:
			if p == nil {
				return nil, rNilPointer, thru
			}
			cur = *p
		case *map[any]any:
			if p == nil {
				return nil, rNilPointer, thru
			}
			cur = *p
		case *ERoot:
			if p == nil {
				return nil, rNilPointer, thru
			}
			cur = *p
		case *RootBase:
			if p == nil {
				return nil, rNilPointer, thru
			}
			cur = *p
		case *map[any]string:
			if p == nil {
				return nil, rNilPointer, thru
			}
			cur = *p
		case *map[skey]string:
			if p == nil {
				return nil, rNilPointer, thru
			}
			cur = *p
		case *bool:
			if p == nil {
				return nil, rNilPointer, thru
			}
			cur = *p
		default:
			isRowPtr := false
			if d, isPtr, isNil := derefPage(cur); isPtr {
				if isNil {
					return nil, rNilPointer, thru
				}
				cur = d
				break
			}
			if d, isPtr, isNil := derefOrt(cur); isPtr {
				if isNil {
					return nil, rNilPointer, thru
				}
				cur = d
				break
			}
			if d, isPtr, isNil := derefTypedMap(cur); isPtr {
				if isNil {
					return nil, rNilPointer, thru
				}
				cur = d
				break
			}
			for _, rk := range rowKinds {
				if d, isPtr, isNil := rk.derefp(cur); isPtr {
					if isNil {
						return nil, rNilPointer, thru
					}
					cur, isRowPtr = d, true
					break
				}
			}
			if isRowPtr {
				break
			}
			if cur != nil && reflect.TypeOf(cur).Kind() == reflect.Ptr {
				return nil, unspec, thru // a pointer type this oracle has no Go code for
			}
			return cur, reach, thru
		}
		thru = true
	}
}

// index performs one step with ordinary Go indexing. It returns the element, the outcome and
// the kind of container that was indexed (for the class histogram).
func index(cur any, st Step) (any, string, string) {
	cur, out, thru := deref(cur)
	pfx := ""
	if thru {
		pfx = "ptr>"
	}
	if out != reach {
		return nil, out, pfx + "nil"
	}
	k := st.K
	if v, o, kind, isIntMap := indexIntMap(cur, st, pfx); isIntMap {
		return v, o, kind
	}
	if v, o, kind, isAnyMap := indexAnyMap(cur, st, pfx); isAnyMap {
		return v, o, kind
	}
	if v, o, kind, isEmb := indexEmbed(cur, st.K, pfx); isEmb {
		return v, o, kind
	}
	if v, o, kind, isPage := indexPage(cur, st.K, pfx); isPage {
		return v, o, kind
	}
	if v, o, kind, isO := indexOrt(cur, st.K, pfx); isO {
		return v, o, kind
	}
	if v, o, kind, isTM := indexTypedMap(cur, st.K, pfx); isTM {
		return v, o, kind
	}
	for _, rk := range rowKinds {
		if v, o, how, isRow := rk.field(cur, st.K); isRow {
			return v, o, pfx + "struct(same-named type " + rk.name + ")" + how
		}
	}
	switch c := cur.(type) {
	case nil:
		return nil, rIntoNil, "nil"
	case map[string]any:
		v, ok := c[k]
		if !ok {
			return nil, rMissingKey, pfx + "map[string]any"
		}
		return v, reach, pfx + "map[string]any"
	case map[string]string:
		v, ok := c[k]
		if !ok {
			return nil, rMissingKey, pfx + "map[string]string"
		}
		return v, reach, pfx + "map[string]string"
	case map[string]int:
		v, ok := c[k]
		if !ok {
			return nil, rMissingKey, pfx + "map[string]int"
		}
		return v, reach, pfx + "map[string]int"
	case map[int]string:
		if st.Q >= 2 {
			return nil, unspec, pfx + "map[int]string"
		}
		n, numeric, canon := canonInt(k)
		if !numeric {
			return nil, rMissingKey, pfx + "map[int]string"
		}
		if !canon {
			return nil, unspec, pfx + "map[int]string"
		}
		v, ok := c[n]
		if !ok {
			return nil, rMissingKey, pfx + "map[int]string"
		}
		return v, reach, pfx + "map[int]string"
	case []any:
		i, o := seqIndex(st, len(c))
		if o != reach {
			return nil, o, pfx + "[]any"
		}
		return c[i], reach, pfx + "[]any"
	case []int:
		i, o := seqIndex(st, len(c))
		if o != reach {
			return nil, o, pfx + "[]int"
		}
		return c[i], reach, pfx + "[]int"
	case []string:
		i, o := seqIndex(st, len(c))
		if o != reach {
			return nil, o, pfx + "[]string"
		}
		return c[i], reach, pfx + "[]string"
	case []Node:
		i, o := seqIndex(st, len(c))
		if o != reach {
			return nil, o, pfx + "[]struct"
		}
		return c[i], reach, pfx + "[]struct"
	case []*Node:
		i, o := seqIndex(st, len(c))
		if o != reach {
			return nil, o, pfx + "[]*struct"
		}
		return c[i], reach, pfx + "[]*struct"
	case []map[string]any:
		i, o := seqIndex(st, len(c))
		if o != reach {
			return nil, o, pfx + "[]map"
		}
		return c[i], reach, pfx + "[]map"
	case [][]int:
		i, o := seqIndex(st, len(c))
		if o != reach {
			return nil, o, pfx + "[][]int"
		}
		return c[i], reach, pfx + "[][]int"
	case [2]any:
		i, o := seqIndex(st, len(c))
		if o != reach {
			return nil, o, pfx + "[2]any"
		}
		return c[i], reach, pfx + "[2]any"
	case [3]int:
		i, o := seqIndex(st, len(c))
		if o != reach {
			return nil, o, pfx + "[3]int"
		}
		return c[i], reach, pfx + "[3]int"
	case Node:
		v, o, how := nodeField(c, k)
		return v, o, pfx + "struct" + how
	case Leaf:
		switch k {
		case "Deep":
			return c.Deep, reach, pfx + "struct.name"
		case "Num":
			return c.Num, reach, pfx + "struct.name"
		case "num":
			return c.Num, reach, pfx + "struct.tag"
		}
		return nil, noField(k, []string{"Deep", "Num", "num"}), pfx + "struct"
	case PLeaf:
		if k == "PDeep" {
			return c.PDeep, reach, pfx + "struct.name"
		}
		return nil, rNoField, pfx + "struct"
	case subT:
		switch k {
		case "A":
			return c.A, reach, pfx + "struct.name"
		case "a":
			return c.A, reach, pfx + "struct.tag"
		}
		return nil, rNoField, pfx + "struct"
	case rootT:
		v, o, how := rootField(c, k)
		return v, o, pfx + "struct" + how
	case bool, int, float64, string, int8, int16, int32, int64, uint, uint8, uint16, uint32, uint64, float32:
		return nil, rIntoScalar, "scalar"
	}
	switch reflect.TypeOf(cur).Kind() {
	case reflect.Map, reflect.Slice, reflect.Array, reflect.Struct, reflect.Interface:
		return nil, unspec, "other" // a container type this oracle has no Go code for
	}
	return nil, rIntoScalar, "scalar"
}

// nodeField is n.<k> written out: exported fields by Go name or by JSON tag, promoted fields of
// the embedded structs by Go name.
func nodeField(n Node, k string) (any, string, string) {
	switch k {
	case "Name":
		return n.Name, reach, ".name"
	case "Title":
		return n.Title, reach, ".name"
	case "title":
		return n.Title, reach, ".tag"
	case "Count":
		return n.Count, reach, ".name"
	case "count":
		return n.Count, reach, ".tag"
	case "Any":
		return n.Any, reach, ".name"
	case "any":
		return n.Any, reach, ".tag"
	case "Kids":
		return n.Kids, reach, ".name"
	case "Next":
		return n.Next, reach, ".name"
	case "next":
		return n.Next, reach, ".tag"
	case "Arr":
		return n.Arr, reach, ".name"
	case "Tags":
		return n.Tags, reach, ".name"
	case "tags":
		return n.Tags, reach, ".tag"
	case "M":
		return n.M, reach, ".name"
	case "Small":
		return n.Small, reach, ".name"
	case "small":
		return n.Small, reach, ".tag"
	case "Bytes":
		return n.Bytes, reach, ".name"
	case "Leaf":
		return n.Leaf, reach, ".embedded"
	case "Deep":
		return n.Deep, reach, ".promoted"
	case "Num":
		return n.Num, reach, ".promoted"
	case "PLeaf":
		return n.PLeaf, reach, ".embedded"
	case "PDeep":
		if n.PLeaf == nil {
			return nil, rNilEmbedded, ".promoted"
		}
		return n.PDeep, reach, ".promoted"
	case "num":
		// JSON tag of a field promoted from the embedded Leaf: it is a field of n (n.Num) and
		// "num" is its JSON tag.
		return n.Num, reach, ".promoted-tag"
	case "Short":
		return n.Short, reach, ".name"
	case "id":
		return n.Short, reach, ".tag"
	case "Long":
		return n.Long, reach, ".name"
	case "ID":
		return n.Long, reach, ".tag"
	case "Type":
		return n.Type, reach, ".name"
	case "Kind":
		// n.Kind: the field NAMED Kind, although the earlier field Type is tagged "Kind"
		return n.Kind, reach, ".name-over-other-tag"
	case "kind":
		return n.Kind, reach, ".tag"
	case "Acct":
		return n.Acct, reach, ".name"
	case "acct":
		return n.Acct, reach, ".tag-with-options"
	case "Bare":
		return n.Bare, reach, ".name"
	case "hidden", "secret":
		return nil, rUnexported, ""
	}
	return nil, noField(k, nodeNames), ""
}

var nodeNames = []string{"Name", "Title", "title", "Count", "count", "Any", "any", "Kids", "Next", "next", "Arr", "Tags", "tags", "M", "Small", "small", "Bytes", "Leaf", "Deep", "Num", "PLeaf", "PDeep", "Short", "Long", "id", "ID", "Type", "Kind", "kind", "Acct", "acct", "Bare"}
var rootNames = []string{"Plain", "Tagged", "tagged", "List", "Sub", "sub", "Any", "any", "Short", "Long", "id", "ID", "Token", "Dash", "Type", "Kind", "kind", "Acct", "acct", "Bare"}

// noField tells a name that merely differs in case from a field name or tag (Go selectors and
// map-like tag access are case-sensitive: it is not that field) from an unrelated name.
func noField(k string, names []string) string {
	for _, n := range names {
		if n != k && strings.EqualFold(n, k) {
			return rWrongCase
		}
	}
	return rNoField
}

func rootField(r rootT, k string) (any, string, string) {
	switch k {
	case "Plain":
		return r.Plain, reach, ".name"
	case "Tagged":
		return r.Tagged, reach, ".name"
	case "tagged":
		return r.Tagged, reach, ".tag"
	case "List":
		return r.List, reach, ".name"
	case "Sub":
		return r.Sub, reach, ".name"
	case "sub":
		return r.Sub, reach, ".tag"
	case "Any":
		return r.Any, reach, ".name"
	case "any":
		return r.Any, reach, ".tag"
	case "Short":
		return r.Short, reach, ".name"
	case "id":
		return r.Short, reach, ".tag"
	case "Long":
		return r.Long, reach, ".name"
	case "ID":
		return r.Long, reach, ".tag"
	case "Type":
		return r.Type, reach, ".name"
	case "Kind":
		return r.Kind, reach, ".name-over-other-tag"
	case "kind":
		return r.Kind, reach, ".tag"
	case "Acct":
		return r.Acct, reach, ".name"
	case "acct":
		return r.Acct, reach, ".tag-with-options"
	case "Bare":
		return r.Bare, reach, ".name"
	case "Token":
		return r.Token, reach, ".name"
	case "Dash":
		return r.Dash, reach, ".name"
	case "-":
		// the tag text of json:"-" / json:"-,": whether it names a field is not settled
		return nil, unspec, ".dash-tag"
	case "hidden":
		return nil, rUnexported, ""
	}
	return nil, noField(k, rootNames), ""
}

// walk applies all steps; it returns the element, the outcome (reach / unspec / reason of
// absence) and the container kinds passed.
func walk(v any, steps []Step) (any, string, []string) {
	cur := v
	var thru []string
	for _, st := range steps {
		next, out, kind := index(cur, st)
		thru = append(thru, kind)
		if out != reach {
			return nil, out, thru
		}
		cur = next
	}
	return cur, reach, thru
}

// validStepsFor is validSteps minus the region of an open known finding: the empty key of a map
// that is not a plain map[string]any / map[string]string (typed maps and maps behind pointers
// are resolved by internal/reflect.ResolveValue, which rejects an empty step).
func validStepsFor(cur any, avoid func(id string) bool) []string {
	steps := validSteps(cur)
	// region of kfPromotedTag: the JSON tag of a promoted field
	if d, out, _ := deref(cur); out == reach {
		var tags []string
		switch d.(type) {
		case Node:
			tags = []string{"num"}
		case ERoot:
			tags = eRootPromotedTags
		}
		if len(tags) > 0 && avoid != nil && avoid(kfPromotedTag) {
			var kept []string
			for _, k := range steps {
				drop := false
				for _, t := range tags {
					drop = drop || k == t
				}
				if !drop {
					kept = append(kept, k)
				}
			}
			return kept
		}
	}
	switch cur.(type) {
	case map[string]any, map[string]string:
		return steps
	}
	for i, k := range steps {
		if k == "" {
			if avoid != nil && avoid(kfEmptyKey) {
				return append(append([]string{}, steps[:i]...), steps[i+1:]...)
			}
			break
		}
	}
	return steps
}

// validSteps lists the step texts that reach an element of cur (sorted, deterministic).
func validSteps(cur any) []string {
	if valid, _, ok := pageSteps(cur); ok {
		return valid
	}
	if keys, ok := typedMapKeys(cur); ok {
		return keys
	}
	if isOrt(cur) {
		return ortNames
	}
	if keys, _, _, ok := intMapInfo(cur); ok {
		return intMapValid(keys)
	}
	if rk, ok := rowKindOf(cur); ok {
		return rk.valid
	}
	if keys, ok := anyMapKeys(cur); ok {
		return keys
	}
	if d, out, _ := deref(cur); out == reach {
		switch d.(type) {
		case ERoot:
			return eRootNames
		case RootBase:
			return rootBaseNames
		}
	}
	cur, out, _ := deref(cur)
	if out != reach {
		return nil
	}
	idx := func(n int) []string {
		o := make([]string, n)
		for i := range o {
			o[i] = strconv.Itoa(i)
		}
		return o
	}
	switch c := cur.(type) {
	case map[string]any:
		return sortedKeys(c)
	case map[string]string:
		return sortedKeys(c)
	case map[string]int:
		return sortedKeys(c)
	case map[int]string:
		var o []string
		for k := range c {
			o = append(o, strconv.Itoa(k))
		}
		sort.Strings(o)
		return o
	case []any:
		return idx(len(c))
	case []int:
		return idx(len(c))
	case []string:
		return idx(len(c))
	case []Node:
		return idx(len(c))
	case []*Node:
		return idx(len(c))
	case []map[string]any:
		return idx(len(c))
	case [][]int:
		return idx(len(c))
	case [2]any:
		return idx(2)
	case [3]int:
		return idx(3)
	case Node:
		o := []string{"Name", "Title", "title", "Count", "count", "Any", "any", "Kids", "Next", "next", "Arr", "Tags", "tags", "M", "Small", "small", "Bytes", "Short", "id", "Long", "ID", "Type", "Kind", "kind", "Acct", "acct", "Bare", "Leaf", "Deep", "Num", "num", "PLeaf"}
		if c.PLeaf != nil {
			o = append(o, "PDeep")
		}
		return o
	case Leaf:
		return []string{"Deep", "Num", "num"}
	case PLeaf:
		return []string{"PDeep"}
	case subT:
		return []string{"A", "a"}
	}
	return nil
}

// seqLen returns the length when cur (after dereferencing) is a slice or array.
func seqLen(cur any) (int, bool) {
	cur, out, _ := deref(cur)
	if out != reach {
		return 0, false
	}
	switch c := cur.(type) {
	case []any:
		return len(c), true
	case []int:
		return len(c), true
	case []string:
		return len(c), true
	case []Node:
		return len(c), true
	case []*Node:
		return len(c), true
	case []map[string]any:
		return len(c), true
	case [][]int:
		return len(c), true
	case [2]any:
		return 2, true
	case [3]int:
		return 3, true
	}
	return 0, false
}

// isMapSS reports whether cur (after dereferencing) is a map[string]string.
func isMapSS(cur any) bool {
	d, out, _ := deref(cur)
	if out != reach {
		return false
	}
	_, ok := d.(map[string]string)
	return ok
}

// invalidSteps lists step texts that must report absence on cur. avoid is called with the id of
// an open known finding whose region the candidate steps would fall into; when it returns true
// those steps are left out.
func invalidSteps(cur any, avoid func(id string) bool) []string {
	if _, invalid, ok := pageSteps(cur); ok {
		return invalid
	}
	if _, ok := typedMapKeys(cur); ok {
		return []string{"zz", "nope", "7", "rust"}
	}
	if isOrt(cur) {
		return []string{"übersicht", "STRASSE", "Strasse", "grösse", "Ubersicht", "0"}
	}
	if isMapSS(cur) && avoid != nil && avoid(kfMapSS) {
		return nil // missing key of a map[string]string: region of the open finding
	}
	if keys, bits, signed, ok := intMapInfo(cur); ok {
		return intMapInvalid(keys, bits, signed)
	}
	if rk, ok := rowKindOf(cur); ok {
		return rk.invalid
	}
	if _, ok := anyMapKeys(cur); ok {
		return []string{"zz", "nope", "7"}
	}
	if d, out, _ := deref(cur); out == reach {
		switch d.(type) {
		case ERoot, RootBase:
			return []string{"pname", "CODE", "Nope", "0", "Rootbase"}
		}
	}
	if n, ok := seqLen(cur); ok {
		return []string{strconv.Itoa(n), strconv.Itoa(n + 3), "-1", "-2", "x", "99999999999999999999"}
	}
	d, out, _ := deref(cur)
	if out != reach {
		return []string{"Name", "0", "k"} // through a nil pointer
	}
	switch d.(type) {
	case map[string]any, map[string]string, map[string]int:
		return []string{"zz", "nope", "7", "köln", "Koln", "日本", "e"}
	case map[int]string:
		return []string{"7", "x", "-1"}
	case Node:
		// wrong-case spellings of tags ("TITLE", "tITLE", "Id") and of Go field names ("name", "NAME")
		o := []string{"hidden", "secret", "Nope", "name", "0", "TITLE", "tITLE", "COUNT", "ANY", "Id", "iD", "NAME", "tAGS", "SMALL", "acct,omitempty", "omitempty", "bare"}
		if d.(Node).PLeaf == nil {
			o = append(o, "PDeep")
		}
		return o
	case Leaf:
		return []string{"Nope", "deep", "0", "NUM", "nUm"}
	case PLeaf, subT:
		return []string{"Nope", "deep", "0"}
	}
	return []string{"x", "0", "Name"} // scalar or nil
}

// elems lists the elements of a slice or array value with ordinary Go indexing.
func elems(v any) ([]any, bool) {
	switch c := v.(type) {
	case []any:
		o := make([]any, len(c))
		copy(o, c)
		return o, true
	case []int:
		o := make([]any, len(c))
		for i := range c {
			o[i] = c[i]
		}
		return o, true
	case []string:
		o := make([]any, len(c))
		for i := range c {
			o[i] = c[i]
		}
		return o, true
	case []Node:
		o := make([]any, len(c))
		for i := range c {
			o[i] = c[i]
		}
		return o, true
	case []*Node:
		o := make([]any, len(c))
		for i := range c {
			o[i] = c[i]
		}
		return o, true
	case []map[string]any:
		o := make([]any, len(c))
		for i := range c {
			o[i] = c[i]
		}
		return o, true
	case [][]int:
		o := make([]any, len(c))
		for i := range c {
			o[i] = c[i]
		}
		return o, true
	case [2]any:
		return []any{c[0], c[1]}, true
	case [3]int:
		return []any{c[0], c[1], c[2]}, true
	}
	return nil, false
}

// exoticKey reports keys that only the quoted bracket form can spell.
func exoticKey(k string) bool {
	return k == "" || strings.ContainsAny(k, ".[]") || strings.TrimSpace(k) != k
}

// spell writes the path. ok=false when a step cannot be written in the requested spelling
// (the case is then skipped as unspecified). exotic reports a quoted key that is empty,
// contains '.', '[' or ']' or has outer blanks.
func spell(name string, steps []Step) (path string, ok bool, exotic bool) {
	var b strings.Builder
	b.WriteString(name)
	for _, st := range steps {
		switch st.Q {
		case 0:
			if exoticKey(st.K) || strings.ContainsAny(st.K, "'\"") {
				return "", false, false
			}
			b.WriteString("." + st.K)
		case 1:
			if !decimal(st.K) {
				return "", false, false
			}
			b.WriteString("[" + st.K + "]")
		case 2:
			if strings.ContainsAny(st.K, "']") {
				return "", false, false
			}
			exotic = exotic || exoticKey(st.K)
			b.WriteString("['" + st.K + "']")
		case 3:
			if strings.ContainsAny(st.K, "\"]") {
				return "", false, false
			}
			exotic = exotic || exoticKey(st.K)
			b.WriteString("[\"" + st.K + "\"]")
		default:
			return "", false, false
		}
	}
	return b.String(), true, exotic
}
