package c17

import (
	"fmt"
	"math"
	"strconv"
)

// The same number in every Go spelling: int, int8..int64, uint, uint8..uint64, float32, float64,
// with integral and non-exact values (0.1, 19.99, 1e21, 1.5e-7). Resolve / Lookup / EnvMap hand
// the value back as it is (same dynamic type); GetString is the text fmt.Sprint gives for the Go
// value; GetInt is int(v) for every integer kind and for integral floats (for non-integral or
// huge floats "best effort" leaves the answer open).

var numKinds = []string{"int8", "int16", "int32", "int64", "uint", "uint8", "uint16", "uint32", "uint64", "f32"}

// buildNum builds the numeric VD kinds above ("int" and "f64" are built in values_test.go).
func buildNum(v VD) (any, bool) {
	switch v.K {
	case "int8":
		n, _ := strconv.ParseInt(v.S, 10, 8)
		return int8(n), true
	case "int16":
		n, _ := strconv.ParseInt(v.S, 10, 16)
		return int16(n), true
	case "int32":
		n, _ := strconv.ParseInt(v.S, 10, 32)
		return int32(n), true
	case "int64":
		n, _ := strconv.ParseInt(v.S, 10, 64)
		return n, true
	case "uint":
		n, _ := strconv.ParseUint(v.S, 10, 64)
		return uint(n), true
	case "uint8":
		n, _ := strconv.ParseUint(v.S, 10, 8)
		return uint8(n), true
	case "uint16":
		n, _ := strconv.ParseUint(v.S, 10, 16)
		return uint16(n), true
	case "uint32":
		n, _ := strconv.ParseUint(v.S, 10, 32)
		return uint32(n), true
	case "uint64":
		n, _ := strconv.ParseUint(v.S, 10, 64)
		return n, true
	case "f32":
		f, _ := strconv.ParseFloat(v.S, 32)
		return float32(f), true
	}
	return nil, false
}

// numberOracle: for a numeric or boolean value, the text GetString must give, and - where
// specified - the int GetInt must give.
func numberOracle(exp any) (text string, isScalar bool, wantInt int, intSpecified bool) {
	integral := func(f float64) (int, bool) {
		if f == math.Trunc(f) && math.Abs(f) < 1e15 {
			return int(f), true
		}
		return 0, false
	}
	switch e := exp.(type) {
	case bool:
		return fmt.Sprint(e), true, 0, false
	case int:
		return fmt.Sprint(e), true, e, true
	case int8:
		return fmt.Sprint(e), true, int(e), true
	case int16:
		return fmt.Sprint(e), true, int(e), true
	case int32:
		return fmt.Sprint(e), true, int(e), true
	case int64:
		return fmt.Sprint(e), true, int(e), true
	case uint:
		return fmt.Sprint(e), true, int(e), true
	case uint8:
		return fmt.Sprint(e), true, int(e), true
	case uint16:
		return fmt.Sprint(e), true, int(e), true
	case uint32:
		return fmt.Sprint(e), true, int(e), true
	case uint64:
		return fmt.Sprint(e), true, int(e), true
	case float32:
		n, ok := integral(float64(e))
		return fmt.Sprint(e), true, n, ok
	case float64:
		n, ok := integral(e)
		return fmt.Sprint(e), true, n, ok
	}
	return "", false, 0, false
}
