package c17

import (
	"math/big"
	"sort"
	"strconv"

	"verif/internal/ev"
	"verif/internal/run"
)

// Boundary indexes: lists of boundary lengths (0, 1, 2, 255, 256, 257, 300) indexed with numbers
// around the list's end (len-1, len, len+1) and around every power of two at which an integer
// type wraps (2^8, 2^16, 2^31, 2^32, 2^63, 2^64: the value itself, one below, and the value plus
// an index that IS in range, i.e. the alias a truncated or overflowing parse would land on),
// 10^30 and the negative mirror images. The model is Go indexing on the exact number: present iff
// 0 <= n < len; a number no int can hold indexes nothing (seqIndex: strconv's range error). The
// lists sit at the top, below a map key, inside a list of lists and in a struct field; both
// index spellings (a.N and a[N]); elements are distinct, so a wrong element is noticed as well.

// iota lists are described by kind and length only (S), so a 300-element case stays small.
func buildIota(v VD) (any, bool) {
	n := atoi(v.S)
	switch v.K {
	case "iotaints":
		out := make([]int, n)
		for i := range out {
			out[i] = 1000 + i
		}
		return out, true
	case "iotastrs":
		out := make([]string, n)
		for i := range out {
			out[i] = "e" + strconv.Itoa(i)
		}
		return out, true
	case "iotaany":
		out := make([]any, n)
		for i := range out {
			if i%2 == 0 {
				out[i] = "a" + strconv.Itoa(i)
			} else {
				out[i] = 2000 + i
			}
		}
		return out, true
	}
	return nil, false
}

var bigLens = []int{0, 1, 2, 255, 256, 257, 300}

// boundaryIndexes lists the index texts tried on a list of length ln (sorted, distinct).
func boundaryIndexes(ln int) []string {
	set := map[string]bool{}
	add := func(b *big.Int) { set[b.String()] = true }
	small := []int64{0, 1, int64(ln) - 2, int64(ln) - 1, int64(ln), int64(ln) + 1}
	for _, k := range small {
		add(big.NewInt(k))
	}
	for _, w := range []uint{8, 16, 31, 32, 63, 64} {
		p := new(big.Int).Lsh(big.NewInt(1), w)
		add(new(big.Int).Sub(p, big.NewInt(1)))
		add(new(big.Int).Neg(p))
		for _, k := range small {
			if k >= 0 {
				add(new(big.Int).Add(p, big.NewInt(k)))
			}
		}
	}
	add(new(big.Int).Exp(big.NewInt(10), big.NewInt(30), nil))
	add(new(big.Int).Neg(new(big.Int).Add(new(big.Int).Lsh(big.NewInt(1), 64), big.NewInt(1)))) // -(2^64+1)
	out := make([]string, 0, len(set))
	for k := range set {
		out = append(out, k)
	}
	sort.Strings(out)
	return out
}

// indexClass names the magnitude of a decimal step (coverage classes of classifyPath).
func indexClass(k string) string {
	b, ok := new(big.Int).SetString(k, 10)
	if !ok || !decimal(k) {
		return ""
	}
	switch a := new(big.Int).Abs(b); {
	case a.BitLen() > 64:
		return "index:beyond-uint64"
	case a.BitLen() > 63:
		return "index:beyond-int64"
	case a.BitLen() > 32:
		return "index:beyond-uint32"
	case a.BitLen() > 16:
		return "index:beyond-uint16"
	case a.BitLen() > 8:
		return "index:beyond-uint8"
	}
	return ""
}

// enumBigIdx: every boundary index on every boundary length, both spellings, four holders;
// element type and binding in rotation.
func enumBigIdx(rec *ev.Rec, shard, shards int) (int, bool) {
	kinds := []string{"iotaints", "iotastrs", "iotaany"}
	n := 0
	for _, ln := range bigLens {
		for _, idx := range boundaryIndexes(ln) {
			for q := 0; q <= 1; q++ {
				for h := 0; h < 4; h++ {
					n++
					if n%shards != shard {
						continue
					}
					list := VD{K: kinds[n%len(kinds)], S: strconv.Itoa(ln)}
					last := Step{K: idx, Q: q}
					var val VD
					var steps []Step
					switch h {
					case 0:
						val, steps = list, []Step{last}
					case 1:
						val = vMap("map", map[string]VD{"rows": list, "n": vInt(ln)})
						steps = []Step{{K: "rows"}, last}
					case 2:
						val = vList("slice", vStr("first"), list, vList("ints", vInt(5), vInt(6)))
						steps = []Step{{K: "1", Q: 1 - q}, last}
					default:
						val = VD{K: "node", M: map[string]VD{"Name": vStr("holder"), "Any": list}}
						steps = []Step{{K: "any"}, last}
					}
					c := PathCase{Val: val, Bind: binds[n%len(binds)], Steps: steps}
					nt, cls := classifyPath(c)
					if !run.Each(rec, "pathbigidx", c, nt, cls, checkPath) {
						return n, false
					}
				}
			}
		}
	}
	return n, true
}

