package c17

import (
	"fmt"
	"reflect"
	"sort"
	"strconv"
	"strings"

	"github.com/titpetric/vuego"
	"pgregory.net/rapid"

	"verif/internal/ev"
	"verif/internal/run"
)

// Family 3: pointer sharing. The merged environment (and a Copy, which is built over it) is a
// function of the VALUES of the root data, not of pointer identity: root data in which one struct
// pointer occurs in several places (not cyclic) must yield an environment that is reflect.DeepEqual
// - dynamic types included - to the environment of deeply equal data built with distinct
// pointers, and every place must still resolve to its leaf. A comparison of the JSON form or of
// leaf paths alone would not see a place that was left unconverted.

type Leafy struct {
	Name string `json:"name"`
	Rank int    `json:"rank"`
}

type PairT struct {
	First  *Leafy `json:"first"`
	Second *Leafy `json:"second"`
	Third  *Leafy
}

type ShareRoot struct {
	Title string            `json:"title"`
	Pair  PairT             `json:"pair"`
	PPair *PairT            `json:"ppair"`
	Solo  *Leafy            `json:"solo"`
	List  []*Leafy          `json:"list"`
	ByKey map[string]*Leafy `json:"bykey"`
	Any   any
}

// LeafD describes one leaf value.
type LeafD struct {
	Name string `json:"name"`
	Rank int    `json:"rank"`
}

// ShareCase: which leaf (index into Leaves) each slot points to; slots not listed are nil.
// Slots: pair.first pair.second pair.Third ppair.first ppair.second solo list.0 list.1 list.2
// bykey.a bykey.b Any.
type ShareCase struct {
	RootPtr bool           `json:"root_ptr,omitempty"`
	Leaves  []LeafD        `json:"leaves"`
	Slots   map[string]int `json:"slots"`
}

var shareSlots = []string{"pair.first", "pair.second", "pair.Third", "ppair.first", "ppair.second", "solo", "list.0", "list.1", "list.2", "bykey.a", "bykey.b", "Any"}

// build makes the root value; with share=true slots naming the same leaf get the SAME pointer,
// otherwise every slot gets a pointer of its own to an equal value.
func (c ShareCase) build(share bool) any {
	pool := map[int]*Leafy{}
	leaf := func(slot string) *Leafy {
		idx, ok := c.Slots[slot]
		if !ok || idx < 0 || idx >= len(c.Leaves) {
			return nil
		}
		if share {
			if p, ok := pool[idx]; ok {
				return p
			}
		}
		p := &Leafy{Name: c.Leaves[idx].Name, Rank: c.Leaves[idx].Rank}
		pool[idx] = p
		return p
	}
	r := ShareRoot{Title: "t"}
	r.Pair = PairT{First: leaf("pair.first"), Second: leaf("pair.second"), Third: leaf("pair.Third")}
	if _, a := c.Slots["ppair.first"]; a {
		r.PPair = &PairT{}
	}
	if _, b := c.Slots["ppair.second"]; b && r.PPair == nil {
		r.PPair = &PairT{}
	}
	if r.PPair != nil {
		r.PPair.First, r.PPair.Second = leaf("ppair.first"), leaf("ppair.second")
	}
	r.Solo = leaf("solo")
	n := 0
	for i := 0; i < 3; i++ {
		if _, ok := c.Slots["list."+strconv.Itoa(i)]; ok {
			n = i + 1
		}
	}
	if n > 0 {
		r.List = make([]*Leafy, n)
		for i := range r.List {
			r.List[i] = leaf("list." + strconv.Itoa(i))
		}
	}
	for _, k := range []string{"a", "b"} {
		if _, ok := c.Slots["bykey."+k]; ok {
			if r.ByKey == nil {
				r.ByKey = map[string]*Leafy{}
			}
			r.ByKey[k] = leaf("bykey." + k)
		}
	}
	if p := leaf("Any"); p != nil {
		r.Any = p
	}
	if c.RootPtr {
		return &r
	}
	return r
}

// typedDiff describes the first place where a and b differ in value or dynamic type.
func typedDiff(path string, a, b any) string {
	if reflect.DeepEqual(a, b) {
		return ""
	}
	if reflect.TypeOf(a) != reflect.TypeOf(b) {
		return fmt.Sprintf("%s is %T with the shared pointer but %T with distinct pointers", path, a, b)
	}
	switch x := a.(type) {
	case map[string]any:
		y := b.(map[string]any)
		keys := map[string]bool{}
		for k := range x {
			keys[k] = true
		}
		for k := range y {
			keys[k] = true
		}
		ks := make([]string, 0, len(keys))
		for k := range keys {
			ks = append(ks, k)
		}
		sort.Strings(ks)
		for _, k := range ks {
			xv, xok := x[k]
			yv, yok := y[k]
			if xok != yok {
				return fmt.Sprintf("%s[%q] present=%v with the shared pointer, present=%v with distinct pointers", path, k, xok, yok)
			}
			if d := typedDiff(path+"["+strconv.Quote(k)+"]", xv, yv); d != "" {
				return d
			}
		}
	}
	return fmt.Sprintf("%s = %s with the shared pointer but %s with distinct pointers", path, show(a), show(b))
}

func checkShare(c ShareCase) error {
	sS := vuego.NewStackWithData(nil, c.build(true))
	sD := vuego.NewStackWithData(nil, c.build(false))
	compare := func(when string, a, b *vuego.Stack) error {
		if d := typedDiff("EnvMap()", a.EnvMap(), b.EnvMap()); d != "" {
			return fmt.Errorf("%s: %s", when, d)
		}
		return nil
	}
	if err := compare("initially", sS, sD); err != nil {
		return err
	}
	for _, s := range []*vuego.Stack{sS, sD} {
		s.Push(nil)
		s.Set("x", 1)
	}
	if err := compare("inside a scope", sS, sD); err != nil {
		return err
	}
	cS, cD := sS.Copy(), sD.Copy()
	if err := compare("on a Copy", cS, cD); err != nil {
		return err
	}
	// every slot still resolves to its leaf, on the stack and on the copy, by tag and by Go name
	for _, slot := range shareSlots {
		idx, ok := c.Slots[slot]
		if !ok || idx < 0 || idx >= len(c.Leaves) {
			continue
		}
		for _, st := range []struct {
			tag string
			s   *vuego.Stack
		}{{"stack", sS}, {"copy", cS}} {
			for _, f := range []struct {
				step string
				want any
			}{{"name", c.Leaves[idx].Name}, {"rank", c.Leaves[idx].Rank}} {
				path := slot + "." + f.step
				got, gok := st.s.Resolve(path)
				if !gok || !reflect.DeepEqual(got, f.want) {
					return fmt.Errorf("%s (shared pointers): Resolve(%q) = %s, %v; want %s, true", st.tag, path, show(got), gok, show(f.want))
				}
			}
		}
	}
	// the two occurrences of one pointer inside Pair have the same dynamic type in the environment
	if pair, ok := sS.EnvMap()["pair"].(map[string]any); ok {
		a, aok := c.Slots["pair.first"]
		b, bok := c.Slots["pair.second"]
		if aok && bok && a == b && reflect.TypeOf(pair["first"]) != reflect.TypeOf(pair["second"]) {
			return fmt.Errorf("EnvMap()[\"pair\"]: first is %T but second, the same pointer, is %T", pair["first"], pair["second"])
		}
	}
	return nil
}

func slotKind(slot string) string {
	switch {
	case strings.HasPrefix(slot, "list."):
		return "slice-element"
	case strings.HasPrefix(slot, "bykey."):
		return "map-value"
	case slot == "Any":
		return "interface-field"
	case strings.HasPrefix(slot, "ppair."):
		return "field-behind-pointer"
	}
	return "field"
}

func classifyShare(c ShareCase) (bool, []string) {
	by := map[int][]string{}
	for _, slot := range shareSlots {
		if idx, ok := c.Slots[slot]; ok && idx >= 0 && idx < len(c.Leaves) {
			by[idx] = append(by[idx], slot)
		}
	}
	cls := map[string]bool{}
	shared := false
	for _, slots := range by {
		if len(slots) < 2 {
			continue
		}
		shared = true
		if len(slots) > 2 {
			cls["shared:3+ places"] = true
		}
		for i := range slots {
			for j := i + 1; j < len(slots); j++ {
				k := []string{slotKind(slots[i]), slotKind(slots[j])}
				sort.Strings(k)
				cls["shared:"+k[0]+"+"+k[1]] = true
			}
		}
	}
	if !shared {
		cls["no-shared-pointer"] = true
	}
	if c.RootPtr {
		cls["share-root=pointer"] = true
	} else {
		cls["share-root=value"] = true
	}
	out := make([]string, 0, len(cls))
	for k := range cls {
		out = append(out, k)
	}
	sort.Strings(out)
	return shared, out
}

// enumShare: every pair of slots sharing one pointer, the other slots nil or pointing to leaves
// of their own, value and pointer root.
func enumShare(rec *ev.Rec, shard, shards int) (int, bool) {
	n := 0
	for i := range shareSlots {
		for j := i + 1; j < len(shareSlots); j++ {
			for _, fill := range []bool{false, true} {
				for _, ptr := range []bool{false, true} {
					n++
					if n%shards != shard {
						continue
					}
					c := ShareCase{RootPtr: ptr, Leaves: []LeafD{{Name: "ada", Rank: 1}}, Slots: map[string]int{shareSlots[i]: 0, shareSlots[j]: 0}}
					if fill {
						for k, slot := range shareSlots {
							if k != i && k != j {
								c.Leaves = append(c.Leaves, LeafD{Name: "leaf" + strconv.Itoa(k), Rank: k})
								c.Slots[slot] = len(c.Leaves) - 1
							}
						}
					}
					nt, cls := classifyShare(c)
					if !run.Each(rec, "share", c, nt, cls, checkShare) {
						return n, false
					}
				}
			}
		}
	}
	return n, true
}

func genShare(t *rapid.T) ShareCase {
	c := ShareCase{RootPtr: rapid.Bool().Draw(t, "rootptr"), Slots: map[string]int{}}
	nl := rapid.IntRange(1, 3).Draw(t, "leaves")
	for i := 0; i < nl; i++ {
		c.Leaves = append(c.Leaves, LeafD{Name: rapid.SampledFrom([]string{"ada", "bob", ""}).Draw(t, "lname"), Rank: rapid.IntRange(0, 3).Draw(t, "lrank")})
	}
	for _, slot := range shareSlots {
		if rapid.IntRange(0, 9).Draw(t, "nil:"+slot) < 4 {
			continue
		}
		c.Slots[slot] = rapid.IntRange(0, nl-1).Draw(t, "leaf:"+slot)
	}
	return c
}
