package c17

import (
	"fmt"
	"time"

	"verif/internal/run"
)

// Text beyond ASCII: map keys, path steps and quoted bracket keys with 2-, 3- and 4-byte
// characters (before and after brackets, several brackets in a row), keys that differ only in a
// combining mark, a format character or non-ASCII case, and a struct whose exported fields have
// non-ASCII Go names (with and without JSON tags, also non-ASCII tags). The model answer is the
// same as for ASCII: Go indexing with the exact string / Go selection of the exact field.

// Ort has exported fields whose Go names are not ASCII.
type Ort struct {
	Übersicht string
	Straße    string `json:"straße"`
	Größe     int    `json:"size"`
	Ключ      string `json:"ключ"`
}

var ortNames = []string{"Übersicht", "Straße", "straße", "Größe", "size", "Ключ", "ключ"}

func ortField(o Ort, k string) (any, string, string) {
	switch k {
	case "Übersicht":
		return o.Übersicht, reach, ".name"
	case "Straße":
		return o.Straße, reach, ".name"
	case "straße":
		return o.Straße, reach, ".tag"
	case "Größe":
		return o.Größe, reach, ".name"
	case "size":
		return o.Größe, reach, ".tag"
	case "Ключ":
		return o.Ключ, reach, ".name"
	case "ключ":
		return o.Ключ, reach, ".tag"
	}
	return nil, noField(k, ortNames), ""
}

func indexOrt(cur any, k string, pfx string) (any, string, string, bool) {
	if o, ok := cur.(Ort); ok {
		v, out, how := ortField(o, k)
		return v, out, pfx + "struct(non-ASCII field names)" + how, true
	}
	return nil, "", "", false
}

func derefOrt(cur any) (any, bool, bool) {
	p, ok := cur.(*Ort)
	if !ok {
		return nil, false, false
	}
	if p == nil {
		return nil, true, true
	}
	return *p, true, false
}

func isOrt(cur any) bool {
	d, out, _ := deref(cur)
	if out != reach {
		return false
	}
	_, ok := d.(Ort)
	return ok
}

func vOrt(tag string) VD {
	return VD{K: "ort", M: map[string]VD{"Übersicht": vStr("übersicht-" + tag), "Straße": vStr("Hauptstraße " + tag), "Größe": vInt(42), "Ключ": vStr("ключ-" + tag)}}
}

func buildOrt(v VD) Ort {
	return Ort{Übersicht: v.M["Übersicht"].S, Straße: v.M["Straße"].S, Größe: atoi(v.M["Größe"].S), Ключ: v.M["Ключ"].S}
}

var ortUniverse = append([]string{"x", "übersicht", "STRASSE", "Strasse", "ÜBERSICHT", "grösse"}, ortNames...)

// unicodeKeys: 2-, 3- and 4-byte characters; "é" precomposed vs "e"+U+0301; "ab" vs "a"+ZWJ+"b";
// "ß" vs "SS" vs "ẞ"; a key that is one emoji.
var unicodeKeys = []string{"Köln", "städte", "日本語", "😀", "é", "é", "a‍b", "ab", "ß", "SS", "ẞ", "größe", "Größe", "ключ"}

// unicodeZoo: the shapes of the statement's examples: städte['Köln'].plz, translations['日本語']['title'].
func unicodeZoo() VD {
	koeln := vMap("map", map[string]VD{"plz": vStr("50667"), "größe": vInt(1), "😀": vStr("smile")})
	return vMap("map", map[string]VD{
		"städte":       vMap("map", map[string]VD{"Köln": koeln, "é": vStr("precomposed"), "é": vStr("combining"), "a‍b": vStr("with ZWJ"), "ab": vStr("plain ab")}),
		"cities":       vMap("map", map[string]VD{"Köln": koeln}),
		"translations": vMap("map", map[string]VD{"日本語": vMap("map", map[string]VD{"title": vStr("タイトル"), "😀": vMap("mapss", map[string]VD{"ß": vStr("sz"), "SS": vStr("double s"), "ẞ": vStr("capital sz")})})}),
		"ort":          vOrt("z"),
		"port":         vList("ptr", vOrt("p")),
		"liste":        vList("slice", vMap("map", map[string]VD{"ключ": vStr("значение")}), vOrt("l")),
	})
}

// guard runs f and reports a violation when it does not return (a path scanner that never
// terminates must not hang the run).
func guard(what string, f func() error) error {
	done := make(chan error, 1)
	go func() { done <- run.Safe(f) }()
	select {
	case err := <-done:
		return err
	case <-time.After(15 * time.Second):
		return fmt.Errorf("%s: did not return within 15s (a Resolve / Lookup call never terminates)", what)
	}
}
