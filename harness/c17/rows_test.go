package c17

import (
	"verif/internal/ev"
	"verif/internal/run"
)

// Distinct struct types that carry the SAME package-qualified name: `type Row struct` declared
// locally in three functions, with permuted field orders and different field sets. They print
// alike (c17.Row) but are different Go types; x.Title on one of them must reach that type's
// Title whatever other Row was resolved before. Each function returns, next to the constructor,
// the ordinary Go selection on its own Row (the type is not nameable outside the function).

type rowKind struct {
	name    string
	build   func(m map[string]VD) any
	field   func(cur any, k string) (v any, out string, how string, isRow bool)
	derefp  func(cur any) (v any, isPtr bool, isNil bool)
	valid   []string
	invalid []string
}

func rowKindA() rowKind {
	type Row struct {
		ID    int
		Title string
		Note  string `json:"note"`
	}
	names := []string{"ID", "Title", "Note", "note"}
	return rowKind{
		name: "a",
		build: func(m map[string]VD) any {
			return Row{ID: atoi(m["ID"].S), Title: m["Title"].S, Note: m["Note"].S}
		},
		field: func(cur any, k string) (any, string, string, bool) {
			r, ok := cur.(Row)
			if !ok {
				return nil, "", "", false
			}
			switch k {
			case "ID":
				return r.ID, reach, ".name", true
			case "Title":
				return r.Title, reach, ".name", true
			case "Note":
				return r.Note, reach, ".name", true
			case "note":
				return r.Note, reach, ".tag", true
			}
			return nil, noField(k, names), "", true
		},
		derefp: func(cur any) (any, bool, bool) {
			p, ok := cur.(*Row)
			if !ok {
				return nil, false, false
			}
			if p == nil {
				return nil, true, true
			}
			return *p, true, false
		},
		valid:   names,
		invalid: []string{"Extra", "hidden", "title", "Nope", "0"},
	}
}

func rowKindB() rowKind {
	type Row struct {
		Title  string
		hidden string
		ID     int
		Note   string `json:"note"`
	}
	names := []string{"ID", "Title", "Note", "note"}
	return rowKind{
		name: "b",
		build: func(m map[string]VD) any {
			return Row{ID: atoi(m["ID"].S), Title: m["Title"].S, Note: m["Note"].S, hidden: m["hidden"].S}
		},
		field: func(cur any, k string) (any, string, string, bool) {
			r, ok := cur.(Row)
			if !ok {
				return nil, "", "", false
			}
			switch k {
			case "ID":
				return r.ID, reach, ".name", true
			case "Title":
				return r.Title, reach, ".name", true
			case "Note":
				return r.Note, reach, ".name", true
			case "note":
				return r.Note, reach, ".tag", true
			case "hidden":
				return nil, rUnexported, "", true
			}
			return nil, noField(k, names), "", true
		},
		derefp: func(cur any) (any, bool, bool) {
			p, ok := cur.(*Row)
			if !ok {
				return nil, false, false
			}
			if p == nil {
				return nil, true, true
			}
			return *p, true, false
		},
		valid:   names,
		invalid: []string{"Extra", "hidden", "title", "Nope", "0"},
	}
}

func rowKindC() rowKind {
	type Row struct {
		Note  string `json:"note"`
		Extra []int
		Title string
	}
	names := []string{"Title", "Note", "note", "Extra"}
	return rowKind{
		name: "c",
		build: func(m map[string]VD) any {
			r := Row{Title: m["Title"].S, Note: m["Note"].S}
			if e, ok := m["Extra"]; ok {
				r.Extra = make([]int, len(e.L))
				for i, x := range e.L {
					r.Extra[i] = atoi(x.S)
				}
			}
			return r
		},
		field: func(cur any, k string) (any, string, string, bool) {
			r, ok := cur.(Row)
			if !ok {
				return nil, "", "", false
			}
			switch k {
			case "Title":
				return r.Title, reach, ".name", true
			case "Note":
				return r.Note, reach, ".name", true
			case "note":
				return r.Note, reach, ".tag", true
			case "Extra":
				return r.Extra, reach, ".name", true
			}
			return nil, noField(k, names), "", true
		},
		derefp: func(cur any) (any, bool, bool) {
			p, ok := cur.(*Row)
			if !ok {
				return nil, false, false
			}
			if p == nil {
				return nil, true, true
			}
			return *p, true, false
		},
		valid:   names,
		invalid: []string{"ID", "hidden", "title", "Nope", "0"}, // this Row has no ID
	}
}

var rowKinds = []rowKind{rowKindA(), rowKindB(), rowKindC()}

func rowKindNamed(name string) rowKind {
	for _, rk := range rowKinds {
		if rk.name == name {
			return rk
		}
	}
	panic("c17: unknown row variant " + name)
}

// rowKindOf finds the Row variant of cur (after dereferencing).
func rowKindOf(cur any) (rowKind, bool) {
	d, out, _ := deref(cur)
	if out != reach {
		return rowKind{}, false
	}
	for _, rk := range rowKinds {
		if _, _, _, ok := rk.field(d, ""); ok {
			return rk, true
		}
	}
	return rowKind{}, false
}

func vRow(variant string, id int, title, note string) VD {
	m := map[string]VD{"ID": vInt(id), "Title": vStr(title), "Note": vStr(note), "hidden": vStr("h-" + variant)}
	if variant == "c" {
		m["Extra"] = vList("ints", vInt(id), vInt(id+1))
	}
	return VD{K: "row", S: variant, M: m}
}

// rowZoo: the three Rows side by side in one value, also behind pointers and in a slice.
func rowZoo() VD {
	return vMap("map", map[string]VD{
		"ra": vRow("a", 7, "invoice", "note-a"),
		"rb": vRow("b", 42, "order", "note-b"),
		"rc": vRow("c", 9, "claim", "note-c"),
		"pa": vList("ptr", vRow("a", 8, "p-invoice", "p-note-a")),
		"pb": vList("ptr", vRow("b", 43, "p-order", "p-note-b")),
		"pc": vList("ptr", vRow("c", 10, "p-claim", "p-note-c")),
		"l":  vList("slice", vRow("b", 1, "l-order", "l-b"), vRow("c", 2, "l-claim", "l-c"), vRow("a", 3, "l-invoice", "l-a")),
	})
}

// enumRows: every field name (valid or not) on every Row of the zoo, each after the same name
// was resolved on each of the other Rows on the same stack (all ordered pairs), in every shard.
func enumRows(rec *ev.Rec) (int, bool) {
	z := rowZoo()
	holders := [][]Step{
		{{K: "ra"}}, {{K: "rb"}}, {{K: "rc"}}, {{K: "pa"}}, {{K: "pb"}}, {{K: "pc"}},
		{{K: "l"}, {K: "0", Q: 1}}, {{K: "l"}, {K: "1", Q: 1}}, {{K: "l"}, {K: "2", Q: 1}},
	}
	names := []string{"ID", "Title", "Note", "note", "Extra", "hidden", "title"}
	n := 0
	for _, h := range holders {
		for _, g := range holders {
			if &h[0] == &g[0] {
				continue
			}
			for _, f := range names {
				main := append(append([]Step(nil), h...), Step{K: f, Q: n % 4 & 2}) // dotted or ['f']
				pre := append(append([]Step(nil), g...), Step{K: f})
				c := PathCase{Val: z, Bind: binds[n%len(binds)], Steps: main, Pre: [][]Step{pre}}
				n++
				nt, cls := classifyPath(c)
				if !run.Each(rec, "pathrows", c, nt, cls, checkPath) {
					return n, false
				}
			}
		}
	}
	return n, true
}
