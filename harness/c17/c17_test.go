// Package c17 decides C17: vuego.Stack is a faithful scope stack with Go-like path resolution.
//
// Two families of cases, both pure data:
//   - SeqCase: root data + a list of operations, interpreted against the real Stack(s) and
//     against a reference model (slice of maps + root value); every observable (Lookup, Resolve,
//     EnvMap for every name of the universe, on every stack alive) is compared after every op.
//   - PathCase: a nested value description + a list of path steps; the expected element is found
//     by walking the built Go value with ordinary Go indexing (oracle_test.go), never by vuego.
package c17

import (
	"bytes"
	"context"
	"encoding/json"
	"errors"
	"fmt"
	"reflect"
	"sort"
	"strings"
	"testing"

	"github.com/titpetric/vuego"
	"pgregory.net/rapid"

	"verif/internal/ev"
	"verif/internal/kf"
	"verif/internal/run"
)

const prop = "C17"

// Known-finding ids (see /verif/findings.d/c17.json). While a finding is open the generators
// stay out of exactly its input region.
const (
	kfGoName      = "C17-envmap-go-name-of-tagged-field"
	kfQuoted      = "C17-quoted-key-resplit"
	kfMapSS       = "C17-mapss-missing-key-present"
	kfEmptyKey    = "C17-empty-key-typed-map"
	kfMapRoot     = "C17-envmap-omits-map-root-data"
	kfPromotedEnv = "C17-envmap-omits-promoted-fields"
	kfPromotedTag = "C17-promoted-field-json-tag"
	kfTagOverName = "C17-envmap-tag-shadows-field-name"
)

// avoider returns the callback the generators hand to invalidSteps: it answers whether the
// finding is open and counts the avoided candidates.
func avoider(rec *ev.Rec, known *kf.File) func(string) bool {
	return func(id string) bool {
		if known.Open(id) {
			rec.Excluded(id)
			return true
		}
		return false
	}
}

// ---------------------------------------------------------------------------------------
// Family 1: operation sequences
// ---------------------------------------------------------------------------------------

// RootD describes how the first stack is constructed.
// Kind: "nil" NewStack(nil) · "map" NewStack(Map) · "struct" NewStackWithData(Map, rootT{…}) ·
// "ptr" NewStackWithData(Map, &rootT{…}) · "nilptr" NewStackWithData(Map, (*rootT)(nil)).
type RootD struct {
	Kind   string        `json:"kind"`
	Map    map[string]VD `json:"map,omitempty"` // nil: a nil map is passed
	Plain  string        `json:"plain,omitempty"`
	Tagged int           `json:"tagged,omitempty"`
	Hidden string        `json:"hidden,omitempty"`
	List   []int         `json:"list,omitempty"`
	SubA   string        `json:"sub_a,omitempty"`
	Short  string        `json:"short,omitempty"`  // field tagged "id"
	Long   string        `json:"long,omitempty"`   // field tagged "ID"
	Token  string        `json:"token,omitempty"`  // field tagged "-"
	Dash   string        `json:"dash,omitempty"`   // field tagged "-,"
	Type   string        `json:"type_f,omitempty"` // field Type, tagged "Kind"
	KindF  string        `json:"kind_f,omitempty"` // field Kind, tagged "kind"
	Acct   int           `json:"acct,omitempty"`   // field Acct, tagged "acct,omitempty,string"
	Bare   string        `json:"bare,omitempty"`   // field Bare, tagged ",omitempty"
	Any    *VD           `json:"any,omitempty"`
	Row    *VD           `json:"row,omitempty"`  // kinds "row" / "prow": the root value is this Row / a pointer to it
	Data   *VD           `json:"data,omitempty"` // kind "data" / "pdata": the root value is this value / a pointer to it
}

// Op is one operation on the current stack.
//
//	push     Push(map built from M)          pushnil  Push(nil)
//	pop      Pop()                           set      Set(N, V)
//	copy     Copy(), stay on the original    copyuse  Copy(), continue on the copy
//	use/swap switch to stack I / the next    foreach  ForEach(N+P, fn), fn fails at call I (I>0)
//	get      GetString/GetInt/GetSlice/GetMap(N+P)    resolve  Resolve(N+P)
type Op struct {
	K string        `json:"k"`
	N string        `json:"n,omitempty"`
	V *VD           `json:"v,omitempty"`
	M map[string]VD `json:"m,omitempty"`
	P []Step        `json:"p,omitempty"`
	I int           `json:"i,omitempty"`
}

// SeqCase is a history. Names is the universe compared after every op (default: bigUniverse).
// EnvSkip lists names for which EnvMap/Lookup agreement is not asserted while the name is bound
// only by the root struct fallback (region of an open known finding).
//
// Prelude: before the history starts, the engine renders a small template with a multi-iteration
// v-for that many times in the same goroutine (the Stack implementation shares a package-wide
// pool of scope maps with the renderer); the model is unaffected: push/pop/set touch only the
// innermost scope whatever the process did before.
type SeqCase struct {
	Root    RootD    `json:"root"`
	Prelude int      `json:"prelude,omitempty"`
	Names   []string `json:"names,omitempty"`
	EnvSkip []string `json:"env_skip,omitempty"`
	Ops     []Op     `json:"ops"`
}

// The universes hold the names the ops bind plus names that are only ever read: both tags of the
// pair "id"/"ID", and wrong-case spellings of tags and field names ("TAGGED", "tAGGED", "Id",
// "PLAIN", "SUB"), which are neither a field name nor a tag and so must be absent unless bound.
var bigUniverse = []string{"x", "y", "Plain", "tagged", "Tagged", "hidden", "List", "sub", "Sub", "any", "id", "ID", "Id", "TAGGED", "tAGGED", "PLAIN", "SUB", "ANY", "Title", "Note", "note", "Extra", "Token", "Dash", "TOKEN", "Type", "Kind", "kind", "Acct", "acct", "Bare", "bare"}
var rowUniverse = []string{"x", "Plain", "ID", "Title", "Note", "note", "Extra", "hidden"}
var smallUniverse = []string{"x", "Plain", "tagged", "hidden", "id", "ID", "TAGGED", "Token", "Dash", "Type", "Kind", "kind", "Acct", "acct", "Bare"}

func (r RootD) data() any {
	mk := func() rootT {
		t := rootT{Plain: r.Plain, Tagged: r.Tagged, hidden: r.Hidden, Sub: subT{A: r.SubA}, Short: r.Short, Long: r.Long, Token: r.Token, Dash: r.Dash, Type: r.Type, Kind: r.KindF, Acct: r.Acct, Bare: r.Bare}
		if r.List != nil {
			t.List = append([]int{}, r.List...)
		}
		if r.Any != nil {
			t.Any = r.Any.Go()
		}
		return t
	}
	switch r.Kind {
	case "struct":
		return mk()
	case "ptr":
		t := mk()
		return &t
	case "nilptr":
		return (*rootT)(nil)
	case "row":
		if r.Row != nil {
			return r.Row.Go()
		}
	case "prow":
		if r.Row != nil {
			return vList("ptr", *r.Row).Go()
		}
	case "data":
		if r.Data != nil {
			return r.Data.Go()
		}
	case "pdata":
		if r.Data != nil {
			return vList("ptr", *r.Data).Go()
		}
	}
	return nil
}

func buildMap(m map[string]VD) map[string]any {
	if m == nil {
		return nil
	}
	out := make(map[string]any, len(m))
	for k, v := range m {
		out[k] = v.Go()
	}
	return out
}

func (r RootD) stack() *vuego.Stack {
	switch r.Kind {
	case "nil":
		return vuego.NewStack(nil)
	case "map":
		return vuego.NewStack(buildMap(r.Map))
	}
	return vuego.NewStackWithData(buildMap(r.Map), r.data())
}

// model is the reference: scopes innermost-last plus the root value.
type model struct {
	scopes []map[string]any
	root   any // rootT, *rootT or nil
}

func newModel(r RootD) *model {
	m := &model{root: r.data()}
	first := buildMap(r.Map)
	if first == nil {
		first = map[string]any{}
	}
	m.scopes = []map[string]any{first}
	return m
}

// lookup: innermost binding, then the fields of the root value. src is "scope" or "field".
func (m *model) lookup(n string) (v any, src string, ok bool) {
	for i := len(m.scopes) - 1; i >= 0; i-- {
		if v, ok := m.scopes[i][n]; ok {
			return v, "scope", true
		}
	}
	// fields of the root value (rootT, *rootT, one of the same-named Row types or a pointer to
	// one), by ordinary Go selection
	if m.root != nil {
		if v, out, _ := index(m.root, Step{K: n}); out == reach {
			return v, "field", true
		}
	}
	return nil, "", false
}

func (m *model) flatten() map[string]any {
	out := map[string]any{}
	for _, s := range m.scopes {
		for k, v := range s {
			out[k] = v
		}
	}
	return out
}

func (m *model) bindings(n string) int {
	c := 0
	for _, s := range m.scopes {
		if _, ok := s[n]; ok {
			c++
		}
	}
	if _, src, ok := (&model{scopes: nil, root: m.root}).lookup(n); ok && src == "field" {
		c++
	}
	return c
}

// apply performs a mutating op on the models and returns event labels (used by classify).
// It returns the new current index.
func apply(models []*model, cur int, op Op) ([]*model, int, []string) {
	var evs []string
	m := models[cur]
	switch op.K {
	case "push", "pushnil":
		sc := map[string]any{}
		if op.K == "push" {
			for k, v := range op.M {
				sc[k] = v.Go()
			}
			if len(sc) == 0 {
				evs = append(evs, "push-empty-map")
			} else {
				evs = append(evs, "push-map")
			}
		} else {
			evs = append(evs, "push-nil")
		}
		for k := range sc {
			if m.bindings(k) > 0 {
				evs = append(evs, "shadowing")
				if _, src, ok := (&model{root: m.root}).lookup(k); ok && src == "field" {
					evs = append(evs, "shadows-root-field")
				}
			}
		}
		m.scopes = append(m.scopes, sc)
	case "pop":
		if len(m.scopes) > 1 {
			if len(m.scopes[len(m.scopes)-1]) > 0 {
				evs = append(evs, "pop-removes-bindings")
			} else {
				evs = append(evs, "pop-empty-scope")
			}
			m.scopes = m.scopes[:len(m.scopes)-1]
		} else {
			// documented ("If only root remains it still pops to empty slice safely") and pinned
			// by the repository's suite: the root scope goes away, an empty one takes its place.
			evs = append(evs, "pop-beyond-root")
			m.scopes = []map[string]any{{}}
		}
	case "set":
		var v any
		if op.V != nil {
			v = op.V.Go()
		}
		top := m.scopes[len(m.scopes)-1]
		if _, had := top[op.N]; had {
			evs = append(evs, "set-overwrites")
		} else if m.bindings(op.N) > 0 {
			evs = append(evs, "shadowing")
			if _, src, ok := (&model{root: m.root}).lookup(op.N); ok && src == "field" {
				evs = append(evs, "shadows-root-field")
			}
		}
		if len(m.scopes) == 1 {
			evs = append(evs, "set-at-root")
		} else {
			evs = append(evs, "set-in-scope")
		}
		if nilish(v) {
			evs = append(evs, "nil-binding")
		}
		top[op.N] = v
	case "copy", "copyuse":
		evs = append(evs, "copy")
		if len(m.scopes) > 1 {
			evs = append(evs, "copy-of-nested")
		}
		c := &model{scopes: []map[string]any{m.flatten()}, root: m.root}
		models = append(models, c)
		if op.K == "copyuse" {
			cur = len(models) - 1
		}
	case "use":
		if len(models) > 1 {
			evs = append(evs, "switch-stack")
		}
		cur = ((op.I % len(models)) + len(models)) % len(models)
	case "swap":
		if len(models) > 1 {
			evs = append(evs, "switch-stack")
		}
		cur = (cur + 1) % len(models)
	}
	return models, cur, evs
}

type agreeMode int

const (
	exact    agreeMode = iota
	presence           // struct-valued root field seen through EnvMap/Copy: StructToMap conversion, only presence compared
)

// agree compares one observation with the model's expectation.
func agree(what string, got any, gok bool, want any, wok bool, mode agreeMode) error {
	switch {
	case !wok:
		if gok {
			return fmt.Errorf("%s: reported present (%s) but the model has no binding", what, show(got))
		}
	case nilish(want):
		// presence unspecified for nil values; but it must not show some other binding's value
		if gok && !nilish(got) {
			return fmt.Errorf("%s = %s, but the innermost binding holds a nil value %s", what, show(got), show(want))
		}
	default:
		if !gok {
			return fmt.Errorf("%s: reported absent, want %s", what, show(want))
		}
		if mode == presence {
			return nil
		}
		if !reflect.DeepEqual(got, want) {
			return fmt.Errorf("%s = %s, want %s", what, show(got), show(want))
		}
	}
	return nil
}

func isStructVal(v any) bool {
	switch v.(type) {
	case subT, *subT, Ort, *Ort, RootBase, *RootBase, BaseN, *BaseN, Deep2, *Deep2:
		return true
	}
	return false
}

// compareStack checks every read-only observable of one stack against its model.
func compareStack(tag string, s *vuego.Stack, m *model, names []string, envSkip map[string]bool) error {
	env := s.EnvMap()
	for _, n := range names {
		want, src, wok := m.lookup(n)
		mode := exact // Lookup/Resolve return the binding / the field itself
		got, gok := s.Lookup(n)
		if err := agree(fmt.Sprintf("%s Lookup(%q)", tag, n), got, gok, want, wok, mode); err != nil {
			return err
		}
		got, gok = s.Resolve(n)
		if err := agree(fmt.Sprintf("%s Resolve(%q)", tag, n), got, gok, want, wok, mode); err != nil {
			return err
		}
		if envSkip[n] && src == "field" {
			continue
		}
		emode := exact
		if isStructVal(want) {
			// EnvMap converts struct-valued root fields to maps (StructToMap); a Copy stores that
			// converted value in its root scope. Only presence is compared.
			emode = presence
		}
		ev, eok := env[n]
		if err := agree(fmt.Sprintf("%s EnvMap()[%q] (Lookup says %s,%v)", tag, n, show(got), gok), ev, eok, want, wok, emode); err != nil {
			return err
		}
	}
	// every name of the merged environment must be one Lookup finds, with the same value
	for _, k := range sortedKeys(env) {
		if k == "-" {
			continue // tag text of json:"-" fields: unspecified
		}
		want, src, wok := m.lookup(k)
		if envSkip[k] && src == "field" {
			continue
		}
		emode := exact
		if isStructVal(want) {
			emode = presence
		}
		if err := agree(fmt.Sprintf("%s EnvMap()[%q]", tag, k), env[k], true, want, wok, emode); err != nil {
			return err
		}
	}
	return nil
}

// looseStruct: after a Copy the copy's root scope holds the converted (map) form of struct-valued
// root fields, so Lookup on a copy is compared by presence for those names.
func compareAll(tag string, stacks []*vuego.Stack, models []*model, names []string, envSkip map[string]bool) error {
	for i := range stacks {
		t := fmt.Sprintf("%s: stack#%d", tag, i)
		if i > 0 {
			// copies: Lookup of a struct-valued root field may yield the converted form
			if err := compareCopy(t, stacks[i], models[i], names, envSkip); err != nil {
				return err
			}
			continue
		}
		if err := compareStack(t, stacks[i], models[i], names, envSkip); err != nil {
			return err
		}
	}
	return nil
}

func compareCopy(tag string, s *vuego.Stack, m *model, names []string, envSkip map[string]bool) error {
	// identical to compareStack except that struct-valued root fields are compared by presence
	// in Lookup/Resolve as well.
	var plain []string
	for _, n := range names {
		want, src, wok := m.lookup(n)
		if envSkip[n] && src == "field" {
			continue // a Copy is built over EnvMap: the open finding's wrong entry becomes a binding of the copy
		}
		if wok && src == "field" && isStructVal(want) {
			got, gok := s.Lookup(n)
			if err := agree(fmt.Sprintf("%s Lookup(%q)", tag, n), got, gok, want, wok, presence); err != nil {
				return err
			}
			continue
		}
		plain = append(plain, n)
	}
	return compareStack(tag, s, m, plain, envSkip)
}

var errStop = errors.New("c17: stop iteration")

// checkReaders runs Resolve, the typed getters and ForEach on one path and compares them with
// the element ordinary Go indexing reaches (exp, out).
func checkReaders(tag string, s *vuego.Stack, path string, exp any, out string, stopAt int) error {
	if out == unspec {
		return nil
	}
	present := out == reach
	got, ok := s.Resolve(path)
	what := fmt.Sprintf("%s Resolve(%q)", tag, path)
	if !present {
		if ok {
			return fmt.Errorf("%s = %s, true; Go indexing reports absence (%s)", what, show(got), out)
		}
	} else if err := agree(what, got, ok, exp, true, exact); err != nil {
		return err
	}

	// --- typed getters
	gs, gsok := s.GetString(path)
	gi, giok := s.GetInt(path)
	gl, glok := s.GetSlice(path)
	gm, gmok := s.GetMap(path)
	if !present || nilish(exp) {
		if !present && (gsok || giok || glok || gmok) {
			return fmt.Errorf("%s: path is absent (%s) but a getter reported a value: GetString=%q,%v GetInt=%d,%v GetSlice=%v,%v GetMap=%v,%v", tag, out, gs, gsok, gi, giok, gl, glok, gm, gmok)
		}
	} else {
		switch e := exp.(type) {
		case string:
			if !gsok || gs != e {
				return fmt.Errorf("%s GetString(%q) = %q,%v want %q,true", tag, path, gs, gsok, e)
			}
			if glok || gmok {
				return fmt.Errorf("%s: %q holds a string but GetSlice/GetMap reported %v/%v", tag, path, glok, gmok)
			}
		case bool, int, int8, int16, int32, int64, uint, uint8, uint16, uint32, uint64, float32, float64:
			text, _, wantInt, intSpecified := numberOracle(e)
			if !gsok || gs != text {
				return fmt.Errorf("%s GetString(%q) = %q,%v want %q,true (the text of the %T value %v)", tag, path, gs, gsok, text, e, e)
			}
			if intSpecified && (!giok || gi != wantInt) {
				return fmt.Errorf("%s GetInt(%q) = %d,%v want %d,true (%T value %v)", tag, path, gi, giok, wantInt, e, e)
			}
			if glok || gmok {
				return fmt.Errorf("%s: %q holds a %T but GetSlice/GetMap reported %v/%v", tag, path, e, glok, gmok)
			}
		case map[string]any:
			if !gmok || !reflect.DeepEqual(gm, e) {
				return fmt.Errorf("%s GetMap(%q) = %s,%v want %s,true", tag, path, show(gm), gmok, show(e))
			}
			if glok {
				return fmt.Errorf("%s: %q holds a map but GetSlice reported a slice", tag, path)
			}
		case map[string]string:
			want := map[string]any{}
			for k, v := range e {
				want[k] = v
			}
			if !gmok || !reflect.DeepEqual(gm, want) {
				return fmt.Errorf("%s GetMap(%q) = %s,%v want %s,true", tag, path, show(gm), gmok, show(want))
			}
		default:
			if el, isSeq := elems(exp); isSeq {
				if !glok || len(gl) != len(el) {
					return fmt.Errorf("%s GetSlice(%q) = %s,%v want the %d elements of %s", tag, path, show(gl), glok, len(el), show(exp))
				}
				for i := range el {
					if !reflect.DeepEqual(gl[i], el[i]) {
						return fmt.Errorf("%s GetSlice(%q)[%d] = %s want %s", tag, path, i, show(gl[i]), show(el[i]))
					}
				}
				if gmok {
					return fmt.Errorf("%s: %q holds a sequence but GetMap reported a map", tag, path)
				}
			}
			// other types (structs, pointers, other maps, bool, float): getters are "best effort", unasserted
		}
	}

	// --- ForEach
	type call struct {
		i int
		v any
	}
	var calls []call
	ferr := s.ForEach(path, func(i int, v any) error {
		calls = append(calls, call{i, v})
		if stopAt > 0 && len(calls) == stopAt {
			return errStop
		}
		return nil
	})
	if !present {
		if len(calls) > 0 {
			return fmt.Errorf("%s ForEach(%q): path is absent (%s) but fn was called %d times", tag, path, out, len(calls))
		}
		return nil
	}
	if el, isSeq := elems(exp); isSeq && !nilish(exp) {
		wantN := len(el)
		stopped := stopAt > 0 && stopAt <= len(el)
		if stopped {
			wantN = stopAt
		}
		if len(calls) != wantN {
			return fmt.Errorf("%s ForEach(%q): fn called %d times, want %d (len %d, fn fails at call %d)", tag, path, len(calls), wantN, len(el), stopAt)
		}
		for i, c := range calls {
			if c.i != i || !reflect.DeepEqual(c.v, el[i]) {
				return fmt.Errorf("%s ForEach(%q): call %d got (%d, %s) want (%d, %s)", tag, path, i, c.i, show(c.v), i, show(el[i]))
			}
		}
		if stopped && !errors.Is(ferr, errStop) {
			return fmt.Errorf("%s ForEach(%q): fn's error at call %d was not passed through (got %v)", tag, path, stopAt, ferr)
		}
		if !stopped && ferr != nil {
			return fmt.Errorf("%s ForEach(%q): unexpected error %v", tag, path, ferr)
		}
		return nil
	}
	if mm, isMap := exp.(map[string]any); isMap && stopAt == 0 && !nilish(exp) {
		// documented as supported, order unspecified: the values visited are the map's values
		if len(calls) != len(mm) {
			return fmt.Errorf("%s ForEach(%q) over a map of %d entries: fn called %d times", tag, path, len(mm), len(calls))
		}
		rest := make([]any, 0, len(mm))
		for _, k := range sortedKeys(mm) {
			rest = append(rest, mm[k])
		}
		for _, c := range calls {
			found := -1
			for j, r := range rest {
				if reflect.DeepEqual(c.v, r) {
					found = j
					break
				}
			}
			if found < 0 {
				return fmt.Errorf("%s ForEach(%q) over a map: visited %s which is not (or no longer) among the map's values", tag, path, show(c.v))
			}
			rest = append(rest[:found], rest[found+1:]...)
		}
		if ferr != nil {
			return fmt.Errorf("%s ForEach(%q): unexpected error %v", tag, path, ferr)
		}
	}
	// scalars, structs, other maps: behaviour of ForEach unspecified (only "returns")
	return nil
}

// prelude renders a template whose v-for runs four iterations (with a nested two-iteration loop)
// n times; the output is checked only for being the expected text.
func prelude(n int) error {
	for i := 0; i < n; i++ {
		var buf bytes.Buffer
		tpl := vuego.New().Fill(map[string]any{"xs": []any{"a", "b", "c", "d"}, "ys": []int{1, 2}})
		if err := tpl.RenderString(context.Background(), &buf, `<ul><li v-for="x in xs">{{ x }}<i v-for="y in ys">{{ y }}</i></li></ul>`); err != nil {
			return fmt.Errorf("prelude render: %v", err)
		}
		if got := textOnly(buf.String()); got != "a12b12c12d12" {
			return fmt.Errorf("prelude render produced text %q, want %q", got, "a12b12c12d12")
		}
	}
	return nil
}

// textOnly drops tags and white space (the prelude's markup is not what is being checked).
func textOnly(html string) string {
	var b strings.Builder
	in := false
	for _, r := range html {
		switch {
		case r == '<':
			in = true
		case r == '>':
			in = false
		case !in && r != ' ' && r != '\n' && r != '\t' && r != '\r':
			b.WriteRune(r)
		}
	}
	return b.String()
}

func checkSeq(c SeqCase) error {
	return guard("history", func() error { return checkSeqInner(c) })
}

func checkSeqInner(c SeqCase) error {
	names := c.Names
	if len(names) == 0 {
		names = bigUniverse
	}
	envSkip := map[string]bool{}
	for _, n := range c.EnvSkip {
		envSkip[n] = true
	}
	if err := prelude(c.Prelude); err != nil {
		return err
	}
	stacks := []*vuego.Stack{c.Root.stack()}
	models := []*model{newModel(c.Root)}
	cur := 0
	if err := compareAll("initially", stacks, models, names, envSkip); err != nil {
		return err
	}
	for i, op := range c.Ops {
		tag := fmt.Sprintf("after op %d (%s %s) on stack#%d", i, op.K, op.N, cur)
		s := stacks[cur]
		switch op.K {
		case "push":
			m := buildMap(op.M)
			if m == nil {
				m = map[string]any{}
			}
			s.Push(m) // a fresh map per Push: Pop is known to clear caller-supplied maps (unasserted)
		case "pushnil":
			s.Push(nil)
		case "pop":
			s.Pop()
		case "set":
			var v any
			if op.V != nil {
				v = op.V.Go()
			}
			s.Set(op.N, v)
		case "copy", "copyuse":
			stacks = append(stacks, s.Copy())
		case "use", "swap":
		case "foreach", "get", "resolve":
			base, _, ok := models[cur].lookup(op.N)
			var exp any
			out := rMissingKey
			if ok {
				exp, out, _ = walk(base, op.P)
			}
			path, sok, _ := spell(op.N, op.P)
			if !sok {
				break
			}
			if cur > 0 && pathThroughStruct(models[cur], op.N) {
				break // copies hold the converted form of struct-valued root fields
			}
			if _, src, bound := models[cur].lookup(op.N); cur > 0 && bound && src == "field" && envSkip[op.N] {
				break // region of an open finding: a Copy is built over EnvMap and inherits its wrong entry
			}
			stop := 0
			if op.K == "foreach" {
				stop = op.I
			}
			if err := checkReaders(tag, s, path, exp, out, stop); err != nil {
				return err
			}
		default:
			return fmt.Errorf("unknown op %q", op.K)
		}
		models, cur, _ = apply(models, cur, op)
		if err := compareAll(tag, stacks, models, names, envSkip); err != nil {
			return err
		}
	}
	return nil
}

func pathThroughStruct(m *model, n string) bool {
	v, src, ok := m.lookup(n)
	return ok && src == "field" && isStructVal(v)
}

func classifySeq(c SeqCase) (bool, []string) {
	cls := map[string]bool{"root=" + c.Root.Kind: true}
	if c.Prelude > 0 {
		cls[fmt.Sprintf("prelude=%d renders", c.Prelude)] = true
	}
	models := []*model{newModel(c.Root)}
	cur := 0
	mutations := 0
	copied := false
	for _, op := range c.Ops {
		switch op.K {
		case "foreach", "get", "resolve":
			base, _, ok := models[cur].lookup(op.N)
			k := op.K
			if !ok {
				cls[k+":missing"] = true
				break
			}
			exp, out, _ := walk(base, op.P)
			switch {
			case out != reach:
				cls[k+":absent"] = true
			default:
				if _, isSeq := elems(exp); isSeq {
					cls[k+":sequence"] = true
					if reflect.TypeOf(exp).Kind() == reflect.Array {
						cls[k+":array"] = true
					}
					if op.K == "foreach" && op.I > 0 {
						cls["foreach:fn-error"] = true
					}
				} else if _, isMap := exp.(map[string]any); isMap {
					cls[k+":map"] = true
				} else {
					cls[k+":other"] = true
				}
			}
			if len(op.P) > 0 {
				cls["resolve-with-path"] = true
			}
		default:
			var evs []string
			before := len(models)
			models, cur, evs = apply(models, cur, op)
			for _, e := range evs {
				cls[e] = true
			}
			if op.K != "use" && op.K != "swap" {
				mutations++
				if copied && op.K != "copy" && op.K != "copyuse" {
					cls["mutation-after-copy"] = true
				}
			}
			if len(models) > before {
				copied = true
			}
		}
	}
	switch n := len(c.Ops); {
	case n <= 4:
		cls[fmt.Sprintf("ops=%d", n)] = true
	case n <= 10:
		cls["ops=5-10"] = true
	case n <= 20:
		cls["ops=11-20"] = true
	default:
		cls["ops=21+"] = true
	}
	out := make([]string, 0, len(cls))
	for k := range cls {
		out = append(out, k)
	}
	sort.Strings(out)
	return mutations > 0, out
}

// ---------------------------------------------------------------------------------------
// Family 2: path resolution
// ---------------------------------------------------------------------------------------

// PathCase: the value is bound to a name in the way Bind says, then name+Steps is resolved.
// Bind: "root" root map · "scope" pushed map over a root binding of the same name · "set" Set in
// a Push(nil) scope · "field"/"field-name" field Any of a struct root addressed by tag "any" / by
// name "Any" · "pfield" the same through a pointer root.
//
// Pre lists other paths over the same name that are resolved (and checked) first, on the same
// stack: collision partners such as the same path with "first name" spelled "firstname".
// Pad adds blanks: 1 around the whole path, 2 around dots and inside brackets, 3 both.
type PathCase struct {
	Val   VD       `json:"val"`
	Bind  string   `json:"bind"`
	Steps []Step   `json:"steps"`
	Pre   [][]Step `json:"pre,omitempty"`
	Pad   int      `json:"pad,omitempty"`
	Mal   []int    `json:"mal,omitempty"` // malformed variants of this path, resolved right before it
}

// "anyroot": the value sits under the key "v" of a map[any]any that is the root DATA (no scope
// binds it): the first path step goes through Lookup's root-data fallback.
// "promoted" / "ppromoted": the value is held by field Val of the struct EMBEDDED in the root
// struct (root by value / by pointer); the first path step is the promoted field's Go name.
var binds = []string{"root", "scope", "set", "field", "field-name", "pfield", "anyroot", "promoted", "ppromoted"}

func (c PathCase) stack(v any) (*vuego.Stack, string) {
	switch c.Bind {
	case "scope":
		s := vuego.NewStack(map[string]any{"v": "outer", "w": 1})
		s.Push(map[string]any{"v": v})
		return s, "v"
	case "set":
		s := vuego.NewStack(map[string]any{"v": "outer"})
		s.Push(nil)
		s.Set("v", v)
		return s, "v"
	case "field":
		return vuego.NewStackWithData(nil, rootT{Plain: "p", Any: v}), "any"
	case "field-name":
		return vuego.NewStackWithData(map[string]any{"other": 1}, rootT{Plain: "p", Any: v}), "Any"
	case "pfield":
		return vuego.NewStackWithData(nil, &rootT{Plain: "p", Any: v}), "any"
	case "promoted":
		return vuego.NewStackWithData(nil, ERoot{RootBase: RootBase{Pname: "pn", Val: v}, Label: "outer"}), "Val"
	case "ppromoted":
		return vuego.NewStackWithData(map[string]any{"other": 1}, &ERoot{RootBase: RootBase{Pname: "pn", Val: v}, Label: "outer"}), "Val"
	case "anyroot":
		return vuego.NewStackWithData(map[string]any{"other": 1}, map[any]any{"v": v, 1: "int key", "w": "x"}), "v"
	}
	return vuego.NewStack(map[string]any{"v": v}), "v"
}

func checkPath(c PathCase) error {
	return guard("path case", func() error { return checkPathInner(c) })
}

func checkPathInner(c PathCase) error {
	v := c.Val.Go()
	exp, out, _ := walk(v, c.Steps)
	s, name := c.stack(v)
	path, ok, _ := spellPad(name, c.Steps, c.Pad)
	if !ok {
		return nil // not spellable as requested: skipped (the generators do not produce these)
	}
	for i, pre := range c.Pre {
		pexp, pout, _ := walk(v, pre)
		ppath, pok, _ := spell(name, pre)
		if !pok {
			continue
		}
		if err := checkReaders(fmt.Sprintf("bind=%s partner#%d (resolved before %q)", c.Bind, i, path), s, ppath, pexp, pout, 0); err != nil {
			return err
		}
	}
	tag := "bind=" + c.Bind
	if len(c.Pre) > 0 {
		tag += fmt.Sprintf(" (after %d partner paths, first %s)", len(c.Pre), describeSteps(c.Pre[0]))
	}
	for _, variant := range c.Mal {
		bad := malformed(path, variant)
		// result unasserted (a panic is a failure): the path has an unclosed bracket
		_, _ = s.Resolve(bad)
		_, _ = vuego.NewStack(map[string]any{"z": 1}).GetString(bad) // and on another stack
		tag += fmt.Sprintf(" (after the malformed %q)", bad)
	}
	return checkReaders(tag, s, path, exp, out, 0)
}

func classifyPath(c PathCase) (bool, []string) {
	v := c.Val.Go()
	exp, out, thru := walk(v, c.Steps)
	cls := map[string]bool{"bind=" + c.Bind: true, fmt.Sprintf("depth=%d", len(c.Steps)): true}
	switch out {
	case reach:
		cls["valid"] = true
		switch {
		case nilish(exp):
			cls["final:nil-element"] = true
		case reflect.TypeOf(exp).Kind() == reflect.Array:
			cls["final:array"] = true
		case reflect.TypeOf(exp).Kind() == reflect.Slice:
			cls["final:slice"] = true
		case reflect.TypeOf(exp).Kind() == reflect.Map:
			cls["final:map"] = true
		case reflect.TypeOf(exp).Kind() == reflect.Struct:
			cls["final:struct"] = true
		case reflect.TypeOf(exp).Kind() == reflect.Ptr:
			cls["final:pointer"] = true
		default:
			cls["final:scalar"] = true
		}
	case unspec:
		cls["unspecified"] = true
	default:
		cls["absent:"+out] = true
	}
	for _, t := range thru {
		cls["thru:"+t] = true
	}
	_, sok, exotic := spell("v", c.Steps)
	if !sok {
		cls["unspellable"] = true
	}
	if len(c.Mal) > 0 {
		cls["after-malformed-path"] = true
		for _, variant := range c.Mal {
			cls[fmt.Sprintf("malformed-variant=%d", variant%malVariants)] = true
		}
	}
	if c.Pad != 0 && len(c.Steps) > 0 {
		cls[fmt.Sprintf("pad=%d", c.Pad)] = true
	}
	for _, st := range c.Steps {
		if strings.Contains(strings.TrimSpace(st.K), " ") {
			cls["key-with-inner-blank"] = true
		}
	}
	if len(c.Pre) > 0 {
		cls["partner-first"] = true
		blankMain, blankPre := false, false
		for _, st := range c.Steps {
			blankMain = blankMain || strings.Contains(st.K, " ")
		}
		for _, st := range c.Pre[0] {
			blankPre = blankPre || strings.Contains(st.K, " ")
		}
		switch {
		case blankPre && !blankMain:
			cls["partner:blank-then-tight"] = true
		case !blankPre && blankMain:
			cls["partner:tight-then-blank"] = true
		default:
			cls["partner:blank-then-blank"] = true
		}
		if _, pout, _ := walk(v, c.Pre[0]); (pout == reach) != (out == reach) {
			cls["partner:one-present-one-absent"] = true
		} else if out == reach {
			cls["partner:both-present"] = true
		}
	}
	if exotic {
		cls["quoted-exotic-key"] = true
	}
	qs := map[int]bool{}
	for _, st := range c.Steps {
		qs[st.Q] = true
		if ic := indexClass(st.K); ic != "" && st.Q <= 1 {
			cls[ic] = true
		}
		cls[[]string{"spell:dotted", "spell:[n]", "spell:['k']", "spell:[\"k\"]"}[st.Q&3]] = true
	}
	if len(qs) > 1 {
		cls["spell:mixed"] = true
	}
	o := make([]string, 0, len(cls))
	for k := range cls {
		o = append(o, k)
	}
	sort.Strings(o)
	return len(c.Steps) > 0 && out != unspec, o
}

// ---------------------------------------------------------------------------------------
// replay / entry points
// ---------------------------------------------------------------------------------------

func replay(kind string, raw json.RawMessage) error {
	if strings.HasPrefix(kind, "path") {
		return run.Decode(raw, checkPath)
	}
	if strings.HasPrefix(kind, "sharedmap") {
		return run.Decode(raw, checkShared)
	}
	if strings.HasPrefix(kind, "share") {
		return run.Decode(raw, checkShare)
	}
	return run.Decode(raw, checkSeq)
}

func TestProp(t *testing.T) {
	rec := ev.New(prop)
	defer run.Finish(t, rec)

	// ---- family 2, twin keys: first of all and in every shard, while vuego's process-global
	// path cache (256 entries) is still empty.
	if tn, tok := enumTwins(rec); tok {
		rec.Exhaustive(fmt.Sprintf("all paths of <= 3 steps naming a key with a blank/blank-free twin over the twin zoo, collision partner resolved first, both orders, plain and padded (%d cases, every shard)", tn))
	}

	// ---- family 2, same-named struct types: every field name on every Row after the same name on
	// another Row, on one stack, all ordered pairs.
	if rn, rok := enumRows(rec); rok {
		rec.Exhaustive(fmt.Sprintf("every field name on each of 9 holders of three distinct struct types all named Row (permuted layouts), after the same name on another holder, all ordered pairs (%d cases, every shard)", rn))
	}

	run.Witnesses(rec, prop, replay)

	known := kf.Load()
	shard, shards := run.Shard()

	// ---- family 1, exhaustive: every sequence of <= 3 (quick) / 4 (thorough) ops of the op
	// alphabet over the 4-name universe, for every root kind.
	maxLen := run.Pick(3, 4)
	n, okAll := 0, true
	for ri, root := range enumRoots() {
		// the six basic roots get the full length; the roots added for the root-data fallback
		// (same-named types, interface-keyed map, embedding structs) one op less
		limit := maxLen
		if ri >= 6 {
			limit = maxLen - 1
		}
		var rec1 func(prefix []Op) bool
		rec1 = func(prefix []Op) bool {
			if len(prefix) > 0 {
				n++
				if n%shards == shard {
					c := SeqCase{Root: root, Names: smallUniverse, Ops: append([]Op(nil), prefix...)}
					if root.Row != nil {
						c.Names = rowUniverse
					}
					if (root.Kind == "struct" || root.Kind == "ptr") && known.Open(kfTagOverName) {
						c.EnvSkip = append(c.EnvSkip, "Kind") // region of the open finding
						rec.Excluded(kfTagOverName)
					}
					if root.Data != nil && root.Data.K == "ort" {
						c.Names = ortUniverse
					}
					if root.Data != nil && root.Data.K == "page" {
						c.Names = pageUniverse
					}
					if root.Data != nil && root.Data.K == "eroot" {
						c.Names = eNames(known.Open(kfPromotedTag))
						if known.Open(kfPromotedTag) {
							rec.Excluded(kfPromotedTag)
						}
						if known.Open(kfPromotedEnv) {
							// region of the open finding: EnvMap agreement for promoted fields
							c.EnvSkip = ePromoted
							rec.Excluded(kfPromotedEnv)
						}
						if known.Open(kfTagOverName) {
							c.EnvSkip = append(append([]string(nil), c.EnvSkip...), "Code")
							rec.Excluded(kfTagOverName)
						}
					} else if root.Kind == "data" && known.Open(kfMapRoot) {
						// region of the open finding: EnvMap agreement for names bound only by the
						// keys of a map used as root data
						c.EnvSkip = c.Names
						rec.Excluded(kfMapRoot)
					}
					nt, cls := classifySeq(c)
					if !run.Each(rec, "enum", c, nt, cls, checkSeq) {
						return false
					}
				}
			}
			if len(prefix) == limit {
				return true
			}
			for _, op := range alphabet(len(prefix)) {
				if !rec1(append(prefix, op)) {
					return false
				}
			}
			return true
		}
		if !rec1(nil) {
			okAll = false
			break
		}
	}
	if okAll {
		rec.Exhaustive(fmt.Sprintf("all op sequences of length 1..%d over a %d-op alphabet x 6 basic root kinds and of length 1..%d x %d further root-data kinds (%d histories)", maxLen, len(alphabet(0)), maxLen-1, len(enumRoots())-6, n))
	}

	// ---- family 1 after a prelude: every sequence of <= 5 ops of a 5-op alphabet (anonymous
	// scopes, Set, Pop, Copy, switching stacks), run right after 1 and after 3 renders of a
	// template with a multi-iteration v-for in the same goroutine.
	pren, preok := 0, true
	for _, renders := range []int{1, 3} {
		var rec3 func(prefix []Op) bool
		rec3 = func(prefix []Op) bool {
			if len(prefix) > 0 {
				pren++
				if pren%shards == shard {
					c := SeqCase{Root: RootD{Kind: "map", Map: map[string]VD{"x": vStr("rx")}}, Prelude: renders, Names: []string{"x", "y"}, Ops: append([]Op(nil), prefix...)}
					nt, cls := classifySeq(c)
					if !run.Each(rec, "prelude", c, nt, cls, checkSeq) {
						return false
					}
				}
			}
			if len(prefix) == 5 || (renders == 3 && len(prefix) == run.Pick(4, 5)) {
				return true
			}
			for _, op := range preludeAlphabet(len(prefix)) {
				if !rec3(append(prefix, op)) {
					return false
				}
			}
			return true
		}
		if !rec3(nil) {
			preok = false
			break
		}
	}
	if preok {
		rec.Exhaustive(fmt.Sprintf("all op sequences of length 1..5 over {Push(nil), Set, Pop, Copy+use, swap} after 1 engine render and of length 1..%d after 3 renders with a multi-iteration v-for (%d histories)", run.Pick(4, 5), pren))
	}

	// ---- family 2, exhaustive: every path of <= 3 (quick) / 4 (thorough) steps over the zoo
	// values, valid and invalid steps, three uniform spellings.
	pn, pok := enumPaths(rec, known, run.Pick(3, 4), shard, shards)
	if pok {
		rec.Exhaustive(fmt.Sprintf("all paths of <= %d steps (valid and invalid continuations, 4 spellings, %d bindings in rotation) over %d zoo values (%d paths)", run.Pick(3, 4), len(binds), len(zoo()), pn))
	}

	// ---- family 2, boundary indexes: lists of boundary lengths x indexes around the list's end and
	// around every power of two at which an integer type wraps.
	if bn, bok := enumBigIdx(rec, shard, shards); bok {
		rec.Exhaustive(fmt.Sprintf("every boundary index (len-2..len+1, 2^w-1, 2^w+k for w in 8,16,31,32,63,64 and k in range, 10^30, negatives) on lists of length %v, spelled a.N and a[N], at the top / below a map key / inside a list / in a struct field (%d cases)", bigLens, bn))
	}

	// ---- family 1b: several stacks over one caller-owned root map
	if mn, mok := enumShared(rec, run.Pick(3, 4), shard, shards); mok {
		rec.Exhaustive(fmt.Sprintf("all op sequences of length 1..%d over a 13-op alphabet on two stacks sharing one caller map plus a copy, the caller's map and every stack compared after every op (%d histories)", run.Pick(3, 4), mn))
	}
	run.Rapid(t, rec, "sharedmaprandom", genShared, classifyShared, checkShared)

	// ---- family 3, pointer sharing: every pair of places sharing one struct pointer
	if sn, sok := enumShare(rec, shard, shards); sok {
		rec.Exhaustive(fmt.Sprintf("every pair of the %d pointer places of the sharing root holding the SAME pointer, the rest nil or distinct, value and pointer root (%d cases)", len(shareSlots), sn))
	}
	run.Rapid(t, rec, "sharerandom", genShare, classifyShare, checkShare)

	// ---- random histories
	run.Rapid(t, rec, "random", func(t *rapid.T) SeqCase { return genSeq(t, rec, known) }, classifySeq, checkSeq)
	// ---- random values and paths
	run.Rapid(t, rec, "path", func(t *rapid.T) PathCase { return genPathCase(t, rec, known) }, classifyPath, checkPath)
}

func TestReplay(t *testing.T) { run.ReplayMain(t, prop, replay) }
