package c17

import (
	"math/big"
	"sort"
	"strconv"
)

// Integer-keyed maps of every width. Ordinary Go indexing m[k] needs k to be a value of the key
// type: a number outside the key type's range is not a key of the map (it must not wrap around
// onto an existing key), so such a step reports absence like any other missing key.

type sint interface {
	~int8 | ~int16 | ~int32 | ~int64
}
type uinteger interface {
	~uint | ~uint8 | ~uint16 | ~uint32 | ~uint64
}

const rKeyRange = "key-outside-key-type-range"

// decimal reports the canonical decimal syntax -?(0|[1-9][0-9]*), "-0" excluded, of any size.
func decimal(k string) bool {
	s := k
	if len(s) > 0 && s[0] == '-' {
		s = s[1:]
		if s == "0" {
			return false
		}
	}
	if s == "" || (len(s) > 1 && s[0] == '0') {
		return false
	}
	for _, c := range s {
		if c < '0' || c > '9' {
			return false
		}
	}
	return true
}

func intKeyS[K sint](m map[K]string, st Step, kind string) (any, string, string) {
	if st.Q >= 2 {
		return nil, unspec, kind // quoted number as an integer key: not settled
	}
	n, err := strconv.ParseInt(st.K, 10, 64)
	if err != nil {
		if decimal(st.K) {
			return nil, rKeyRange, kind // beyond int64
		}
		return nil, rMissingKey, kind // not a number: cannot be a key
	}
	if !decimal(st.K) {
		return nil, unspec, kind // "+1", "007", "-0"
	}
	if int64(K(n)) != n {
		return nil, rKeyRange, kind
	}
	v, ok := m[K(n)]
	if !ok {
		return nil, rMissingKey, kind
	}
	return v, reach, kind
}

func intKeyU[K uinteger](m map[K]string, st Step, kind string) (any, string, string) {
	if st.Q >= 2 {
		return nil, unspec, kind
	}
	n, err := strconv.ParseUint(st.K, 10, 64)
	if err != nil {
		if decimal(st.K) {
			return nil, rKeyRange, kind // negative or beyond uint64
		}
		return nil, rMissingKey, kind
	}
	if !decimal(st.K) {
		return nil, unspec, kind
	}
	if uint64(K(n)) != n {
		return nil, rKeyRange, kind
	}
	v, ok := m[K(n)]
	if !ok {
		return nil, rMissingKey, kind
	}
	return v, reach, kind
}

// indexIntMap is the part of index() for integer-keyed maps (after dereferencing).
func indexIntMap(cur any, st Step, pfx string) (any, string, string, bool) {
	var v any
	var out, kind string
	switch c := cur.(type) {
	case map[int8]string:
		v, out, kind = intKeyS(c, st, pfx+"map[int8]string")
	case map[int16]string:
		v, out, kind = intKeyS(c, st, pfx+"map[int16]string")
	case map[int32]string:
		v, out, kind = intKeyS(c, st, pfx+"map[int32]string")
	case map[int64]string:
		v, out, kind = intKeyS(c, st, pfx+"map[int64]string")
	case map[uint]string:
		v, out, kind = intKeyU(c, st, pfx+"map[uint]string")
	case map[uint8]string:
		v, out, kind = intKeyU(c, st, pfx+"map[uint8]string")
	case map[uint16]string:
		v, out, kind = intKeyU(c, st, pfx+"map[uint16]string")
	case map[uint32]string:
		v, out, kind = intKeyU(c, st, pfx+"map[uint32]string")
	case map[uint64]string:
		v, out, kind = intKeyU(c, st, pfx+"map[uint64]string")
	default:
		return nil, "", "", false
	}
	return v, out, kind, true
}

func keysS[K sint](m map[K]string) []*big.Int {
	o := make([]*big.Int, 0, len(m))
	for k := range m {
		o = append(o, big.NewInt(int64(k)))
	}
	return o
}

func keysU[K uinteger](m map[K]string) []*big.Int {
	o := make([]*big.Int, 0, len(m))
	for k := range m {
		o = append(o, new(big.Int).SetUint64(uint64(k)))
	}
	return o
}

// intMapInfo describes an integer-keyed map (after dereferencing): its keys, the width of the key
// type and whether it is signed.
func intMapInfo(cur any) (keys []*big.Int, bits int, signed bool, ok bool) {
	d, out, _ := deref(cur)
	if out != reach {
		return nil, 0, false, false
	}
	switch c := d.(type) {
	case map[int8]string:
		keys, bits, signed = keysS(c), 8, true
	case map[int16]string:
		keys, bits, signed = keysS(c), 16, true
	case map[int32]string:
		keys, bits, signed = keysS(c), 32, true
	case map[int64]string:
		keys, bits, signed = keysS(c), 64, true
	case map[uint]string:
		keys, bits = keysU(c), strconv.IntSize
	case map[uint8]string:
		keys, bits = keysU(c), 8
	case map[uint16]string:
		keys, bits = keysU(c), 16
	case map[uint32]string:
		keys, bits = keysU(c), 32
	case map[uint64]string:
		keys, bits = keysU(c), 64
	default:
		return nil, 0, false, false
	}
	sort.Slice(keys, func(i, j int) bool { return keys[i].Cmp(keys[j]) < 0 })
	return keys, bits, signed, true
}

func intMapValid(keys []*big.Int) []string {
	o := make([]string, len(keys))
	for i, k := range keys {
		o[i] = k.String()
	}
	return o
}

// intMapInvalid lists steps that must report absence on an integer-keyed map: numbers outside the
// key type's range whose wrapped value IS an existing key (key ± 2^bits, key + 2^(bits+1)), the
// first value beyond either end of the range, plain missing keys and non-numeric steps.
func intMapInvalid(keys []*big.Int, bits int, signed bool) []string {
	has := map[string]bool{}
	for _, k := range keys {
		has[k.String()] = true
	}
	seen := map[string]bool{}
	var out []string
	add := func(s string) {
		if !seen[s] && !has[s] {
			seen[s] = true
			out = append(out, s)
		}
	}
	span := new(big.Int).Lsh(big.NewInt(1), uint(bits))
	for _, k := range keys {
		add(new(big.Int).Add(k, span).String())
		add(new(big.Int).Sub(k, span).String())
		add(new(big.Int).Add(k, new(big.Int).Lsh(span, 1)).String())
	}
	// just outside the range
	if signed {
		half := new(big.Int).Rsh(span, 1)
		add(half.String())                                                    // max+1
		add(new(big.Int).Sub(new(big.Int).Neg(half), big.NewInt(1)).String()) // min-1
	} else {
		add(span.String()) // max+1
		add("-1")
	}
	// plain missing keys inside the range
	for _, c := range []string{"3", "6", "100"} {
		if !has[c] {
			add(c)
			break
		}
	}
	if signed && !has["-7"] {
		add("-7")
	}
	add("x")
	add("1e1")
	add("0x2c")
	return out
}

func buildIntMapS[K sint](m map[string]VD) map[K]string {
	out := make(map[K]string, len(m))
	for k, e := range m {
		n, _ := strconv.ParseInt(k, 10, 64)
		out[K(n)] = e.S
	}
	return out
}

func buildIntMapU[K uinteger](m map[string]VD) map[K]string {
	out := make(map[K]string, len(m))
	for k, e := range m {
		n, _ := strconv.ParseUint(k, 10, 64)
		out[K(n)] = e.S
	}
	return out
}

// buildIntMap builds the map of VD kind "mapk" (S = key type, M = decimal key -> string value).
func buildIntMap(v VD) any {
	switch v.S {
	case "int8":
		return buildIntMapS[int8](v.M)
	case "int16":
		return buildIntMapS[int16](v.M)
	case "int32":
		return buildIntMapS[int32](v.M)
	case "int64":
		return buildIntMapS[int64](v.M)
	case "uint":
		return buildIntMapU[uint](v.M)
	case "uint8":
		return buildIntMapU[uint8](v.M)
	case "uint16":
		return buildIntMapU[uint16](v.M)
	case "uint32":
		return buildIntMapU[uint32](v.M)
	case "uint64":
		return buildIntMapU[uint64](v.M)
	}
	panic("c17: unknown integer key type " + v.S)
}

var intKeyTypes = []string{"int8", "int16", "int32", "int64", "uint", "uint8", "uint16", "uint32", "uint64"}

// intKeyPool: keys worth having per key type (both ends of the range, small values, -1).
func intKeyPool(typ string) []string {
	switch typ {
	case "int8":
		return []string{"44", "-1", "1", "0", "127", "-128"}
	case "int16":
		return []string{"300", "-1", "1", "0", "32767", "-32768"}
	case "int32":
		return []string{"70000", "-1", "1", "0", "2147483647", "-2147483648"}
	case "int64":
		return []string{"5", "-1", "0", "9223372036854775807", "-9223372036854775808"}
	case "uint8":
		return []string{"1", "0", "44", "255"}
	case "uint16":
		return []string{"1", "0", "300", "65535"}
	case "uint32":
		return []string{"1", "0", "70000", "4294967295"}
	}
	return []string{"1", "0", "7", "18446744073709551615"} // uint, uint64
}

func vIntMap(typ string, kv ...string) VD {
	m := map[string]VD{}
	for i := 0; i+1 < len(kv); i += 2 {
		m[kv[i]] = vStr(kv[i+1])
	}
	return VD{K: "mapk", S: typ, M: m}
}

// intKeyZoo: every integer key type directly, behind pointers, in struct fields (typed and
// interface), in slices and arrays.
func intKeyZoo() VD {
	n := zooNode("ik", false)
	n.M["Small"] = vIntMap("int8", "44", "x", "-1", "neg")
	n.M["Bytes"] = vIntMap("uint8", "1", "one", "255", "max")
	n.M["Any"] = vIntMap("int16", "300", "three hundred", "-2", "neg")
	return vMap("map", map[string]VD{
		"small": vIntMap("int8", "44", "x", "-1", "neg", "-128", "min", "127", "max"),
		"bytes": vIntMap("uint8", "1", "one", "255", "max", "0", "zero"),
		"i16":   vIntMap("int16", "300", "a", "-1", "b"),
		"u16":   vIntMap("uint16", "1", "a", "65535", "b"),
		"i32":   vIntMap("int32", "70000", "a", "-1", "b"),
		"u32":   vIntMap("uint32", "1", "a"),
		"i64":   vIntMap("int64", "5", "a", "-9223372036854775808", "min", "9223372036854775807", "max"),
		"u":     vIntMap("uint", "7", "a", "0", "zero"),
		"u64":   vIntMap("uint64", "18446744073709551615", "max", "1", "a"),
		"p8":    vList("ptr", vIntMap("int8", "44", "x", "-1", "neg")),
		"pu8":   vList("ptr", vList("ptr", vIntMap("uint8", "1", "one"))),
		"n":     n,
		"l":     vList("slice", vIntMap("int8", "1", "a"), vIntMap("uint16", "300", "b")),
		"e":     vIntMap("int8"),
	})
}
