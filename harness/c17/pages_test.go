package c17

// Embedding structs in which an OWN field and a PROMOTED field compete for a name:
//   - same JSON tag:           Page.Title `json:"name"`  vs  BaseN.Label `json:"name"` (one level
//     down) and Deep2.Far `json:"name"` (two levels down);
//   - own tag = promoted name: Page.Head `json:"Caption"` vs  BaseN.Caption;
//   - own name = promoted tag: Page.Title                 vs  BaseN.Nick `json:"Title"`.
//
// The embedded member is declared first (PageFirst), last (PageLast) or in the middle (PageMid);
// declaration order must not matter. Go names: ordinary selection (p.Caption is the promoted
// field, p.Title the own one). Tags: the own field is the shallowest and wins over promoted ones
// (as in encoding/json); BaseN's own Label wins over the Far promoted from Deep2.
// Not asserted: which of two PROMOTED fields of different depth owns a shared tag (none here).

type Deep2 struct {
	Far  string `json:"name"`
	Far2 string `json:"far2"`
}

type BaseN struct {
	Deep2
	Label   string `json:"name"`
	Extra   string `json:"extra"`
	Nick    string `json:"Title"`
	Caption string
}

type PageFirst struct {
	BaseN
	Title string `json:"name"`
	Head  string `json:"Caption"`
}

type PageLast struct {
	Title string `json:"name"`
	Head  string `json:"Caption"`
	BaseN
}

type PageMid struct {
	Title string `json:"name"`
	BaseN
	Head string `json:"Caption"`
}

var deep2Names = []string{"Far", "name", "Far2", "far2"}
var baseNNames = []string{"Deep2", "Label", "name", "Extra", "extra", "Nick", "Title", "Caption", "Far", "Far2", "far2"}
var pageNames = []string{"BaseN", "Title", "name", "Head", "Label", "Extra", "extra", "Nick", "Caption", "Deep2", "Far", "Far2", "far2"}

func deep2Field(d Deep2, k string) (any, string, string) {
	switch k {
	case "Far":
		return d.Far, reach, ".name"
	case "name":
		return d.Far, reach, ".tag"
	case "Far2":
		return d.Far2, reach, ".name"
	case "far2":
		return d.Far2, reach, ".tag"
	}
	return nil, noField(k, deep2Names), ""
}

func baseNField(b BaseN, k string) (any, string, string) {
	switch k {
	case "Deep2":
		return b.Deep2, reach, ".embedded"
	case "Label":
		return b.Label, reach, ".name"
	case "name":
		return b.Label, reach, ".tag-own-over-promoted"
	case "Extra":
		return b.Extra, reach, ".name"
	case "extra":
		return b.Extra, reach, ".tag"
	case "Nick":
		return b.Nick, reach, ".name"
	case "Title":
		return b.Nick, reach, ".tag" // BaseN has no field NAMED Title
	case "Caption":
		return b.Caption, reach, ".name"
	case "Far":
		return b.Far, reach, ".promoted"
	case "Far2":
		return b.Far2, reach, ".promoted"
	case "far2":
		return b.Far2, reach, ".promoted-tag"
	}
	return nil, noField(k, baseNNames), ""
}

// pageField is p.<k> for any of the three page types (same fields, different declaration order).
func pageField(title, head string, b BaseN, k string) (any, string, string) {
	switch k {
	case "BaseN":
		return b, reach, ".embedded"
	case "Title":
		return title, reach, ".name" // p.Title, although the promoted Nick is tagged "Title"
	case "name":
		return title, reach, ".tag-own-over-promoted"
	case "Head":
		return head, reach, ".name"
	case "Caption":
		return b.Caption, reach, ".promoted-over-other-tag" // p.Caption, although Head is tagged "Caption"
	case "Label":
		return b.Label, reach, ".promoted"
	case "Extra":
		return b.Extra, reach, ".promoted"
	case "extra":
		return b.Extra, reach, ".promoted-tag"
	case "Nick":
		return b.Nick, reach, ".promoted"
	case "Deep2":
		return b.Deep2, reach, ".promoted"
	case "Far":
		return b.Far, reach, ".promoted-2-levels"
	case "Far2":
		return b.Far2, reach, ".promoted-2-levels"
	case "far2":
		return b.Far2, reach, ".promoted-tag-2-levels"
	}
	return nil, noField(k, pageNames), ""
}

// indexPage is the part of index() for these types (after dereferencing).
func indexPage(cur any, k string, pfx string) (any, string, string, bool) {
	var v any
	var o, how, kind string
	switch c := cur.(type) {
	case PageFirst:
		v, o, how = pageField(c.Title, c.Head, c.BaseN, k)
		kind = "struct(embedded first)"
	case PageLast:
		v, o, how = pageField(c.Title, c.Head, c.BaseN, k)
		kind = "struct(embedded last)"
	case PageMid:
		v, o, how = pageField(c.Title, c.Head, c.BaseN, k)
		kind = "struct(embedded in the middle)"
	case BaseN:
		v, o, how = baseNField(c, k)
		kind = "struct(embedding)"
	case Deep2:
		v, o, how = deep2Field(c, k)
		kind = "struct"
	default:
		return nil, "", "", false
	}
	return v, o, pfx + kind + how, true
}

// derefPage dereferences pointers to these types.
func derefPage(cur any) (v any, isPtr bool, isNil bool) {
	switch p := cur.(type) {
	case *PageFirst:
		if p == nil {
			return nil, true, true
		}
		return *p, true, false
	case *PageLast:
		if p == nil {
			return nil, true, true
		}
		return *p, true, false
	case *PageMid:
		if p == nil {
			return nil, true, true
		}
		return *p, true, false
	case *BaseN:
		if p == nil {
			return nil, true, true
		}
		return *p, true, false
	case *Deep2:
		if p == nil {
			return nil, true, true
		}
		return *p, true, false
	}
	return nil, false, false
}

func pageSteps(cur any) (valid, invalid []string, ok bool) {
	d, out, _ := deref(cur)
	if out != reach {
		return nil, nil, false
	}
	switch d.(type) {
	case PageFirst, PageLast, PageMid:
		return pageNames, []string{"NAME", "caption", "Nope", "0", "label"}, true
	case BaseN:
		return baseNNames, []string{"NAME", "Head", "Nope", "0"}, true
	case Deep2:
		return deep2Names, []string{"NAME", "Label", "0"}, true
	}
	return nil, nil, false
}

// buildPage builds VD kind "page": S = first | last | mid, M = Title, Head, Label, Extra, Nick,
// Caption, Far, Far2.
func buildPage(v VD) any {
	b := BaseN{
		Deep2: Deep2{Far: v.M["Far"].S, Far2: v.M["Far2"].S},
		Label: v.M["Label"].S, Extra: v.M["Extra"].S, Nick: v.M["Nick"].S, Caption: v.M["Caption"].S,
	}
	switch v.S {
	case "last":
		return PageLast{Title: v.M["Title"].S, Head: v.M["Head"].S, BaseN: b}
	case "mid":
		return PageMid{Title: v.M["Title"].S, Head: v.M["Head"].S, BaseN: b}
	case "base":
		return b
	}
	return PageFirst{Title: v.M["Title"].S, Head: v.M["Head"].S, BaseN: b}
}

func vPage(order, tag string) VD {
	return VD{K: "page", S: order, M: map[string]VD{
		"Title": vStr("page-title-" + tag), "Head": vStr("head-" + tag), "Label": vStr("base-label-" + tag),
		"Extra": vStr("extra-" + tag), "Nick": vStr("nick-" + tag), "Caption": vStr("caption-" + tag),
		"Far": vStr("far-" + tag), "Far2": vStr("far2-" + tag),
	}}
}

var pageUniverse = append([]string{"x", "NAME", "caption"}, pageNames...)
