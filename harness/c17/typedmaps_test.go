package c17

// String-keyed maps whose VALUE type is a container or a pointer: map[string][]string,
// map[string][]any, map[string]map[string]any, map[string][]int, map[string]*Node. Indexing with
// a key that is not in the map yields the zero value of the value type in Go (a typed nil slice /
// map / pointer) - the comma-ok form says the key is absent, and so must a path step, as the
// last step and in the middle of a path alike. (A key that IS present and holds a nil value is a
// nil element: presence unasserted, as everywhere.)

func strKeyIndex[V any](m map[string]V, k string, kind string) (any, string, string, bool) {
	v, ok := m[k]
	if !ok {
		return nil, rMissingKey, kind, true
	}
	return v, reach, kind, true
}

// indexTypedMap is the part of index() for these maps (after dereferencing).
func indexTypedMap(cur any, k string, pfx string) (any, string, string, bool) {
	switch c := cur.(type) {
	case map[string][]string:
		return strKeyIndex(c, k, pfx+"map[string][]string")
	case map[string][]any:
		return strKeyIndex(c, k, pfx+"map[string][]any")
	case map[string]map[string]any:
		return strKeyIndex(c, k, pfx+"map[string]map[string]any")
	case map[string][]int:
		return strKeyIndex(c, k, pfx+"map[string][]int")
	case map[string]*Node:
		return strKeyIndex(c, k, pfx+"map[string]*struct")
	}
	return nil, "", "", false
}

// derefTypedMap dereferences pointers to these maps.
func derefTypedMap(cur any) (v any, isPtr bool, isNil bool) {
	switch p := cur.(type) {
	case *map[string][]string:
		if p == nil {
			return nil, true, true
		}
		return *p, true, false
	case *map[string][]any:
		if p == nil {
			return nil, true, true
		}
		return *p, true, false
	case *map[string]map[string]any:
		if p == nil {
			return nil, true, true
		}
		return *p, true, false
	case *map[string][]int:
		if p == nil {
			return nil, true, true
		}
		return *p, true, false
	case *map[string]*Node:
		if p == nil {
			return nil, true, true
		}
		return *p, true, false
	}
	return nil, false, false
}

// typedMapKeys lists the keys of such a map (after dereferencing).
func typedMapKeys(cur any) ([]string, bool) {
	d, out, _ := deref(cur)
	if out != reach {
		return nil, false
	}
	switch c := d.(type) {
	case map[string][]string:
		return sortedKeys(c), true
	case map[string][]any:
		return sortedKeys(c), true
	case map[string]map[string]any:
		return sortedKeys(c), true
	case map[string][]int:
		return sortedKeys(c), true
	case map[string]*Node:
		return sortedKeys(c), true
	}
	return nil, false
}

// buildTypedMap builds VD kinds mapsls, mapsla, mapsm, mapsli, mapsp; an entry of kind "nil" is a
// present key holding the typed nil value.
func buildTypedMap(v VD) any {
	switch v.K {
	case "mapsls":
		m := make(map[string][]string, len(v.M))
		for k, e := range v.M {
			if e.K == "nil" {
				m[k] = nil
				continue
			}
			s := make([]string, len(e.L))
			for i, x := range e.L {
				s[i] = x.S
			}
			m[k] = s
		}
		return m
	case "mapsla":
		m := make(map[string][]any, len(v.M))
		for k, e := range v.M {
			if e.K == "nil" {
				m[k] = nil
				continue
			}
			s := make([]any, len(e.L))
			for i, x := range e.L {
				s[i] = x.Go()
			}
			m[k] = s
		}
		return m
	case "mapsm":
		m := make(map[string]map[string]any, len(v.M))
		for k, e := range v.M {
			if e.K == "nil" {
				m[k] = nil
				continue
			}
			in := make(map[string]any, len(e.M))
			for kk, x := range e.M {
				in[kk] = x.Go()
			}
			m[k] = in
		}
		return m
	case "mapsli":
		m := make(map[string][]int, len(v.M))
		for k, e := range v.M {
			if e.K == "nil" {
				m[k] = nil
				continue
			}
			s := make([]int, len(e.L))
			for i, x := range e.L {
				s[i] = atoi(x.S)
			}
			m[k] = s
		}
		return m
	}
	m := make(map[string]*Node, len(v.M)) // "mapsp"
	for k, e := range v.M {
		if e.K == "node" {
			n := e.node()
			m[k] = &n
		} else {
			m[k] = nil
		}
	}
	return m
}

var typedMapKinds = []string{"mapsls", "mapsla", "mapsm", "mapsli", "mapsp"}

func typedMapZooEntry(kind string) VD {
	switch kind {
	case "mapsls":
		return VD{K: kind, M: map[string]VD{"go": vList("strs", vStr("a"), vStr("b")), "empty": vList("strs"), "nilv": vNil(), "0": vList("strs", vStr("zero"))}}
	case "mapsla":
		return VD{K: kind, M: map[string]VD{"mixed": vList("slice", vInt(1), vStr("s"), vMap("map", map[string]VD{"k": vStr("deep")})), "nilv": vNil()}}
	case "mapsm":
		return VD{K: kind, M: map[string]VD{"o": vMap("map", map[string]VD{"k": vInt(1), "l": vList("ints", vInt(7))}), "e": vMap("map", nil), "nilv": vNil()}}
	case "mapsli":
		return VD{K: kind, M: map[string]VD{"nums": vList("ints", vInt(4), vInt(5)), "nilv": vNil()}}
	}
	return VD{K: "mapsp", M: map[string]VD{"n": zooNode("tm", false), "nilp": vNil()}}
}

// typedMapZoo: every such map bound directly below the root name's map, behind pointers, in a
// struct field, in a slice and inside another typed map.
func typedMapZoo() VD {
	n := zooNode("tz", false)
	n.M["Any"] = typedMapZooEntry("mapsls")
	return vMap("map", map[string]VD{
		"tags":  typedMapZooEntry("mapsls"),
		"lists": typedMapZooEntry("mapsla"),
		"objs":  typedMapZooEntry("mapsm"),
		"nums":  typedMapZooEntry("mapsli"),
		"ptrs":  typedMapZooEntry("mapsp"),
		"ptags": vList("ptr", typedMapZooEntry("mapsls")),
		"pobjs": vList("ptr", typedMapZooEntry("mapsm")),
		"n":     n,
		"l":     vList("slice", typedMapZooEntry("mapsla"), typedMapZooEntry("mapsm")),
	})
}
