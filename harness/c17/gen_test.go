package c17

import (
	"fmt"
	"strconv"

	"pgregory.net/rapid"

	"verif/internal/ev"
	"verif/internal/kf"
	"verif/internal/run"
)

// ---------------------------------------------------------------------------------------
// bounded enumerations
// ---------------------------------------------------------------------------------------

func structRoot(kind string, m map[string]VD) RootD {
	return RootD{Kind: kind, Map: m, Plain: "P", Tagged: 7, Hidden: "H", List: []int{4, 5}, SubA: "a", Short: "short-id", Long: "LONG-ID", Token: "t0k3n", Dash: "dash-value", Type: "legacy-type", KindF: "real-kind", Acct: 12, Bare: "bare-value"}
}

// enumRoots: nil, map, struct, pointer to struct, struct whose field is shadowed by the root map,
// nil pointer.
func enumRoots() []RootD {
	return []RootD{
		{Kind: "nil"},
		{Kind: "map", Map: map[string]VD{"x": vStr("rx"), "tagged": vStr("rt")}},
		structRoot("struct", nil),
		structRoot("ptr", map[string]VD{"x": vStr("rx")}),
		structRoot("struct", map[string]VD{"Plain": vStr("mP"), "x": vStr("rx")}),
		{Kind: "nilptr", Map: map[string]VD{"x": vStr("rx")}},
		rowRoot("row", "a"),
		rowRoot("prow", "c"),
		anyMapRoot(),
		eRootRoot("data"),
		eRootRoot("pdata"),
		pageRoot("data", "first"),
		pageRoot("pdata", "mid"),
		ortRoot("pdata"),
	}
}

// ortRoot: a struct whose exported field names are not ASCII, as root data.
func ortRoot(kind string) RootD {
	d := vOrt("r")
	return RootD{Kind: kind, Data: &d, Map: map[string]VD{"x": vStr("rx")}}
}

// pageRoot: an embedding struct whose own fields compete with promoted ones, as root data.
func pageRoot(kind, order string) RootD {
	d := vPage(order, "r")
	return RootD{Kind: kind, Data: &d, Map: map[string]VD{"x": vStr("rx")}}
}

// eRootRoot: a struct embedding another struct as root data, by value or by pointer.
func eRootRoot(kind string) RootD {
	d := vERoot("r")
	return RootD{Kind: kind, Data: &d, Map: map[string]VD{"x": vStr("rx")}}
}

// anyMapRoot: a map[any]any as root data (string keys of the universe plus an int key), with a
// root scope that binds only x.
func anyMapRoot() RootD {
	d := VD{K: "mapaa", M: map[string]VD{"Plain": vStr("aP"), "tagged": vList("slice", vInt(1), vStr("e")), "ID": vStr("aID"), "#1": vStr("int-one")}}
	return RootD{Kind: "data", Data: &d, Map: map[string]VD{"x": vStr("rx")}}
}

// rowRoot: root data of one of the same-named Row types.
func rowRoot(kind, variant string) RootD {
	r := vRow(variant, 7, "root-title-"+variant, "root-note-"+variant)
	return RootD{Kind: kind, Row: &r, Map: map[string]VD{"x": vStr("rx")}}
}

// alphabet is the op alphabet of the exhaustive family; values carry the position so that a
// stale binding is distinguishable from a fresh one.
func alphabet(pos int) []Op {
	sv := vStr(fmt.Sprintf("s%d", pos))
	lv := vList("slice", vInt(pos), vStr("e"))
	nv := vNil()
	return []Op{
		{K: "pushnil"},
		{K: "push", M: map[string]VD{}},
		{K: "push", M: map[string]VD{"x": sv}},
		{K: "push", M: map[string]VD{"Plain": sv}},
		{K: "push", M: map[string]VD{"tagged": sv, "x": lv}},
		{K: "pop"},
		{K: "set", N: "x", V: &sv},
		{K: "set", N: "Plain", V: &sv},
		{K: "set", N: "tagged", V: &sv},
		{K: "set", N: "hidden", V: &sv},
		{K: "set", N: "x", V: &lv},
		{K: "set", N: "x", V: &nv},
		{K: "copyuse"},
		{K: "copy"},
		{K: "swap"},
		{K: "foreach", N: "x", I: 1},
		{K: "get", N: "x"},
	}
}

// preludeAlphabet: the ops that matter for scope-map identity.
func preludeAlphabet(pos int) []Op {
	sv := vStr(fmt.Sprintf("p%d", pos))
	return []Op{
		{K: "pushnil"},
		{K: "set", N: "x", V: &sv},
		{K: "pop"},
		{K: "copyuse"},
		{K: "swap"},
	}
}

// numberZooEntries: one number per Go kind, integral and non-exact values.
func numberZooEntries() map[string]VD {
	m := map[string]VD{"f32tenth": {K: "f32", S: "0.1"}, "f32price": {K: "f32", S: "19.99"}, "f32exact": {K: "f32", S: "2.5"}, "f32big": {K: "f32", S: "1e21"}, "f32tiny": {K: "f32", S: "1.5e-7"},
		"f64tenth": {K: "f64", S: "0.1"}, "f64price": {K: "f64", S: "19.99"}, "f64big": {K: "f64", S: "1e21"}, "f64tiny": {K: "f64", S: "1.5e-7"}, "f64int": {K: "f64", S: "3"}, "yes": {K: "bool", S: "true"}}
	for _, k := range []string{"int8", "int16", "int32", "int64", "uint", "uint8", "uint16", "uint32", "uint64"} {
		m[k] = VD{K: k, S: "44"}
	}
	return m
}

func zooNode(name string, rich bool) VD {
	m := map[string]VD{"Name": vStr(name), "Title": vStr("t-" + name), "hidden": vStr("h-" + name), "Short": vStr("short-" + name), "Long": vStr("LONG-" + name), "Type": vStr("type-" + name), "Kind": vStr("kind-" + name), "Acct": vInt(12), "Bare": vStr("bare-" + name)}
	if rich {
		m["Count"] = vInt(3)
		m["Any"] = vMap("mapss", map[string]VD{"k": vStr("s")})
		m["Kids"] = vList("slice", vStr("kid"), VD{K: "node", M: map[string]VD{"Name": vStr("inner")}})
		m["Next"] = VD{K: "node", M: map[string]VD{"Name": vStr("nx"), "Title": vStr("nt")}}
		m["Arr"] = vList("arr2", vInt(1), vList("slice", vStr("z")))
		m["Tags"] = vMap("mapss", map[string]VD{"t": vStr("u")})
		m["M"] = vMap("map", map[string]VD{"mk": vList("ints", vInt(9))})
		m["secret"] = vStr("sec")
		m["Deep"] = vStr("dp")
		m["Num"] = vInt(4)
		m["PDeep"] = vStr("pd")
	}
	return VD{K: "node", M: m}
}

// zoo: fixed values that together contain every container kind in every nesting position.
func zoo() []VD {
	a := vMap("map", map[string]VD{
		"a":    vList("slice", vInt(1), vMap("map", map[string]VD{"k": vStr("v"), "0": vStr("zero")}), vList("ints", vInt(5), vInt(6)), vNil()),
		"n":    zooNode("nm", true),
		"p":    vList("ptr", zooNode("pn", false)),
		"np":   {K: "nilptr", S: "node"},
		"ss":   vMap("mapss", map[string]VD{"k": vStr("v"), "0": vStr("z")}),
		"mi":   vMap("mapis", map[string]VD{"1": vStr("one"), "2": vStr("two")}),
		"ar":   vList("arr3", vInt(7), vInt(8), vInt(9)),
		"s":    vStr("scalar"),
		"pp":   vList("ptr", vList("ptr", zooNode("ppn", false))),
		"ps":   vList("ptr", vList("slice", vInt(1), vStr("b"))),
		"pm":   vList("ptr", vMap("map", map[string]VD{"k": vInt(1)})),
		"nl":   vNil(),
		"nums": vMap("map", numberZooEntries()),
		"er":   vERoot("z"),
		"pgf":  vPage("first", "f"),
		"pgl":  vList("ptr", vPage("last", "l")),
		"pgm":  vPage("mid", "m"),
		"pgb":  vPage("base", "b"),
		"pe":   vList("ptr", vERoot("pz")),
	})
	b := vList("slice",
		zooNode("s0", false),
		vList("pnodes", zooNode("pn0", false), vNil()),
		vList("nodes", zooNode("n0", false)),
		vList("maps", vMap("map", map[string]VD{"k": vInt(1)})),
		vList("grid", vList("ints", vInt(1), vInt(2)), vList("ints", vInt(3))),
		vList("arr2", vMap("map", map[string]VD{"in": vStr("arr")}), vNil()),
		vMap("mapsi", map[string]VD{"a": vInt(1)}),
		VD{K: "nilslice"},
		VD{K: "nilmap"},
		VD{K: "bool", S: "true"},
		VD{K: "f64", S: "1.5"},
		vList("strs", vStr("x"), vStr("y")),
		VD{K: "nilptr", S: "slice"},
		VD{K: "nilptr", S: "map"},
	)
	return []VD{a, b, intKeyZoo(), rowZoo(), looseZoo(), typedMapZoo(), typedMapZooEntry("mapsls"), unicodeZoo(), zooNode("top", true), vList("ptr", zooNode("ptop", true)), vStr("just a string"), vList("arr2", vList("slice", vInt(1)), zooNode("ia", false))}
}

// exoticZoo holds keys only the quoted bracket form can spell (region of finding kfQuoted).
func exoticZoo() VD {
	return vMap("map", map[string]VD{
		"a.b": vStr("dotted key"),
		"a":   vMap("map", map[string]VD{"b": vStr("nested, not the dotted key")}),
		"":    vStr("empty key"),
		" s":  vStr("leading blank"),
		"q[0": vStr("bracket in key"),
		"x y": vStr("inner blank"),
	})
}

func stringKeyed(cur any) bool {
	d, out, _ := deref(cur)
	if out != reach {
		return false
	}
	switch d.(type) {
	case map[string]any, map[string]string, map[string]int:
		return true
	}
	return false
}

func numericHome(cur any) bool {
	if _, _, _, ok := intMapInfo(cur); ok {
		return true
	}
	if _, ok := seqLen(cur); ok {
		return true
	}
	d, out, _ := deref(cur)
	if out != reach {
		return false
	}
	_, ok := d.(map[int]string)
	return ok
}

// pickQ chooses the spelling of step k on cur for one of the uniform spelling modes:
// 0 dotted · 1 [n] / ['k'] · 2 [n] on sequences, ["k"] elsewhere (also for numeric keys of
// string-keyed containers) · 3 alternating dotted / mode 1.
func pickQ(mode, depth int, cur any, k string) int {
	canon := decimal(k)
	if exoticKey(k) {
		if mode == 2 {
			return 3
		}
		return 2
	}
	if numericHome(cur) {
		if canon && mode != 0 && !(mode == 3 && depth%2 == 0) {
			return 1
		}
		return 0
	}
	switch mode {
	case 0:
		return 0
	case 2:
		return 3
	case 3:
		if depth%2 == 0 {
			return 0
		}
	}
	if canon {
		return 1
	}
	return 2
}

func enumPaths(rec *ev.Rec, known *kf.File, maxDepth, shard, shards int) (int, bool) {
	values := zoo()
	if known.Open(kfQuoted) {
		rec.Excluded(kfQuoted)
	} else {
		values = append(values, exoticZoo())
	}
	n := 0
	avoid := avoider(rec, known)
	emit := func(z VD, steps []Step) bool {
		bs := binds
		if len(steps) > 1 {
			bs = []string{binds[n%len(binds)]}
		}
		for _, b := range bs {
			n++
			if n%shards != shard {
				continue
			}
			c := PathCase{Val: z, Bind: b, Steps: append([]Step(nil), steps...)}
			if n%3 == 0 && hasBracketStep(steps) {
				c.Mal = []int{n / 3} // a malformed variant of this very path right before it
			}
			nt, cls := classifyPath(c)
			if !run.Each(rec, "pathenum", c, nt, cls, checkPath) {
				return false
			}
		}
		return true
	}
	for _, z := range values {
		root := z.Go()
		for mode := 0; mode < 4; mode++ {
			var rec2 func(cur any, steps []Step, alive bool) bool
			rec2 = func(cur any, steps []Step, alive bool) bool {
				if mode == 0 || len(steps) > 0 {
					if !emit(z, steps) {
						return false
					}
				}
				if len(steps) == maxDepth {
					return true
				}
				if !alive {
					return true
				}
				d := len(steps)
				for _, k := range validStepsFor(cur, avoid) {
					st := Step{K: k, Q: pickQ(mode, d, cur, k)}
					next, out, _ := index(cur, st)
					if out != reach {
						continue
					}
					if !rec2(next, append(steps, st), true) {
						return false
					}
				}
				for _, k := range invalidSteps(cur, avoid) {
					st := Step{K: k, Q: pickQ(mode, d, cur, k)}
					if _, out, _ := index(cur, st); out == reach {
						continue // e.g. "0"/"7" happens to be a key of this map
					}
					dead := append(steps, st)
					if !emit(z, dead) {
						return false
					}
					// one more step behind the point of absence
					if len(dead) < maxDepth {
						if !emit(z, append(dead, Step{K: "k", Q: pickQ(mode, d+1, nil, "k")})) {
							return false
						}
					}
				}
				return true
			}
			if !rec2(root, nil, true) {
				return n, false
			}
		}
	}
	return n, true
}

// ---------------------------------------------------------------------------------------
// rapid generators (draw data only)
// ---------------------------------------------------------------------------------------

var plainKeys = []string{"a", "b", "k", "0", "1", "Title", "x y", "-1"}

func init() { plainKeys = append(plainKeys, unicodeKeys...) }

var exoticKeys = []string{"a.b", "", " s", "q[0", "k."}

type genCtx struct {
	rec      *ev.Rec
	avoid    func(string) bool
	exoticOK bool
	plain    bool // never draw exotic keys (family 1 does not need them)
}

func (g genCtx) key(t *rapid.T) string {
	if !g.plain && rapid.IntRange(0, 9).Draw(t, "exotic") == 0 {
		if g.exoticOK {
			return rapid.SampledFrom(exoticKeys).Draw(t, "ekey")
		}
		g.rec.Excluded(kfQuoted) // region of the open finding: a plain key is used instead
	}
	if rapid.IntRange(0, 9).Draw(t, "twin") < 4 {
		return rapid.SampledFrom(twinPool).Draw(t, "tkey") // small pool: collisions within one process
	}
	return rapid.SampledFrom(plainKeys).Draw(t, "key")
}

func genScalar(t *rapid.T) VD {
	switch rapid.IntRange(0, 7).Draw(t, "sk") {
	case 6:
		// the same small number in every integer spelling
		return VD{K: rapid.SampledFrom([]string{"int8", "int16", "int32", "int64", "uint", "uint8", "uint16", "uint32", "uint64"}).Draw(t, "ik"), S: rapid.SampledFrom([]string{"0", "7", "44", "100"}).Draw(t, "iv")}
	case 7:
		return VD{K: rapid.SampledFrom([]string{"f32", "f64"}).Draw(t, "fk"), S: rapid.SampledFrom([]string{"0.1", "19.99", "1e21", "1.5e-7", "2.5", "3", "-0.5"}).Draw(t, "fv")}
	case 0:
		return VD{K: "bool", S: rapid.SampledFrom([]string{"true", "false"}).Draw(t, "b")}
	case 1:
		return VD{K: "f64", S: rapid.SampledFrom([]string{"0", "1.5", "-2.25"}).Draw(t, "f")}
	case 2, 3:
		return vInt(rapid.IntRange(-3, 40).Draw(t, "i"))
	default:
		return vStr(rapid.SampledFrom([]string{"", "s", "hello", "12", "a b", "x.y"}).Draw(t, "s"))
	}
}

func (g genCtx) node(t *rapid.T, depth int) VD {
	m := map[string]VD{"Name": vStr(rapid.SampledFrom([]string{"", "n1", "n2"}).Draw(t, "Name"))}
	opt := func(name string) bool { return rapid.IntRange(0, 2).Draw(t, "has"+name) > 0 }
	if opt("Title") {
		m["Title"] = vStr("title")
	}
	if opt("ids") {
		m["Short"] = vStr("short-id")
		m["Long"] = vStr("LONG-ID")
	}
	if opt("acct") {
		m["Acct"] = vInt(rapid.IntRange(0, 9).Draw(t, "Acct"))
		m["Bare"] = vStr("bare")
	}
	if opt("kinds") {
		m["Type"] = vStr("legacy-type")
		m["Kind"] = vStr("real-kind")
	}
	if opt("Count") {
		m["Count"] = vInt(rapid.IntRange(0, 5).Draw(t, "Count"))
	}
	if opt("hidden") {
		m["hidden"] = vStr("hid")
	}
	if opt("secret") {
		m["secret"] = genScalar(t)
	}
	if opt("Deep") {
		m["Deep"] = vStr("deep")
		m["Num"] = vInt(rapid.IntRange(0, 9).Draw(t, "Num"))
	}
	if opt("PDeep") {
		m["PDeep"] = vStr("pdeep")
	}
	if depth > 0 {
		if opt("Any") {
			m["Any"] = g.val(t, depth-1)
		}
		if opt("Kids") {
			n := rapid.IntRange(0, 3).Draw(t, "nKids")
			l := []VD{}
			for i := 0; i < n; i++ {
				l = append(l, g.val(t, depth-1))
			}
			m["Kids"] = VD{K: "slice", L: l}
		}
		if opt("Next") {
			m["Next"] = g.node(t, depth-1)
		}
		if opt("Arr") {
			m["Arr"] = vList("arr2", g.val(t, depth-1), g.val(t, depth-1))
		}
		if opt("M") {
			mm := map[string]VD{}
			for i, n := 0, rapid.IntRange(0, 2).Draw(t, "nM"); i < n; i++ {
				mm[g.key(t)] = g.val(t, depth-1)
			}
			m["M"] = VD{K: "map", M: mm}
		}
	}
	if rapid.IntRange(0, 3).Draw(t, "hasSmall") == 0 {
		m["Small"] = genIntMapOf(t, "int8")
	}
	if rapid.IntRange(0, 3).Draw(t, "hasBytes") == 0 {
		m["Bytes"] = genIntMapOf(t, "uint8")
	}
	if opt("Tags") {
		mm := map[string]VD{}
		for i, n := 0, rapid.IntRange(0, 2).Draw(t, "nTags"); i < n; i++ {
			mm[g.key(t)] = vStr(fmt.Sprintf("tag%d", i))
		}
		m["Tags"] = VD{K: "mapss", M: mm}
	}
	return VD{K: "node", M: m}
}

// val draws a value of nesting depth <= depth.
func (g genCtx) val(t *rapid.T, depth int) VD {
	if depth <= 0 {
		if rapid.IntRange(0, 9).Draw(t, "leafkind") == 0 {
			return rapid.SampledFrom([]VD{vNil(), {K: "nilptr", S: "node"}, {K: "nilslice"}, {K: "nilmap"}, {K: "nilptr", S: "slice"}, {K: "nilptr", S: "map"}, vList("slice"), vMap("map", nil)}).Draw(t, "nilish")
		}
		return genScalar(t)
	}
	list := func(min, max int, f func(i int) VD) []VD {
		n := rapid.IntRange(min, max).Draw(t, "n")
		l := []VD{}
		for i := 0; i < n; i++ {
			l = append(l, f(i))
		}
		return l
	}
	switch rapid.IntRange(0, 39).Draw(t, "kind") {
	case 0, 1:
		return g.val(t, 0)
	case 2, 3, 4:
		m := map[string]VD{}
		for i, n := 0, rapid.IntRange(0, 3).Draw(t, "n"); i < n; i++ {
			m[g.key(t)] = g.val(t, depth-1)
		}
		return VD{K: "map", M: m}
	case 5, 6, 7:
		return VD{K: "slice", L: list(0, 3, func(int) VD { return g.val(t, depth-1) })}
	case 8, 9, 10, 11:
		return g.node(t, depth-1)
	case 12, 13:
		inner := g.val(t, depth-1)
		if inner.K == "nil" {
			return VD{K: "nilptr", S: "node"}
		}
		return vList("ptr", inner)
	case 14:
		m := map[string]VD{}
		for i, n := 0, rapid.IntRange(0, 3).Draw(t, "n"); i < n; i++ {
			m[g.key(t)] = vStr(fmt.Sprintf("ss%d", i))
		}
		return VD{K: "mapss", M: m}
	case 15:
		m := map[string]VD{}
		for i, n := 0, rapid.IntRange(0, 3).Draw(t, "n"); i < n; i++ {
			m[g.key(t)] = vInt(i)
		}
		return VD{K: "mapsi", M: m}
	case 24, 25, 26:
		return genIntMap(t)
	case 30, 31, 32:
		kind := rapid.SampledFrom([]string{"mapaa", "mapaa", "mapas", "mapns"}).Draw(t, "akind")
		m := map[string]VD{}
		for i, n := 0, rapid.IntRange(0, 3).Draw(t, "n"); i < n; i++ {
			k := g.key(t)
			if kind != "mapns" && rapid.IntRange(0, 4).Draw(t, "intkey") == 0 {
				k = "#" + strconv.Itoa(rapid.IntRange(0, 2).Draw(t, "ik"))
			}
			if kind == "mapaa" {
				m[k] = g.val(t, depth-1)
			} else {
				m[k] = vStr(fmt.Sprintf("%s%d", kind, i))
			}
		}
		return VD{K: kind, M: m}
	case 37, 38, 39:
		kind := rapid.SampledFrom(typedMapKinds).Draw(t, "tmkind")
		m := map[string]VD{}
		for i, n := 0, rapid.IntRange(0, 3).Draw(t, "n"); i < n; i++ {
			k := g.key(t)
			if rapid.IntRange(0, 5).Draw(t, "nilentry") == 0 {
				m[k] = vNil()
				continue
			}
			switch kind {
			case "mapsls":
				m[k] = vList("strs", vStr("s0"), vStr("s1"))
			case "mapsla":
				m[k] = vList("slice", g.val(t, depth-1), g.val(t, 0))
			case "mapsm":
				m[k] = vMap("map", map[string]VD{g.key(t): g.val(t, depth-1)})
			case "mapsli":
				m[k] = vList("ints", vInt(i), vInt(i+1))
			default:
				m[k] = g.node(t, depth-1)
			}
		}
		return VD{K: kind, M: m}
	case 35, 36:
		pg := vPage(rapid.SampledFrom([]string{"first", "last", "mid", "base"}).Draw(t, "porder"), rapid.SampledFrom([]string{"a", "b"}).Draw(t, "ptag"))
		if rapid.Bool().Draw(t, "pptr") {
			return vList("ptr", pg)
		}
		return pg
	case 33, 34:
		e := vERoot(rapid.SampledFrom([]string{"a", "b"}).Draw(t, "etag"))
		if depth > 1 {
			e.M["Val"] = g.val(t, depth-1)
		}
		if rapid.Bool().Draw(t, "eptr") {
			return vList("ptr", e)
		}
		return e
	case 27, 28, 29:
		return vRow(rapid.SampledFrom([]string{"a", "b", "c"}).Draw(t, "rowv"), rapid.IntRange(0, 9).Draw(t, "rid"), rapid.SampledFrom([]string{"", "t1", "t2"}).Draw(t, "rtitle"), "n")
	case 16:
		m := map[string]VD{}
		for i, n := 0, rapid.IntRange(0, 3).Draw(t, "n"); i < n; i++ {
			m[fmt.Sprint(rapid.IntRange(-1, 3).Draw(t, "ik"))] = vStr(fmt.Sprintf("is%d", i))
		}
		return VD{K: "mapis", M: m}
	case 17:
		return VD{K: "ints", L: list(0, 3, func(i int) VD { return vInt(i * 3) })}
	case 18:
		return VD{K: "strs", L: list(0, 3, func(i int) VD { return vStr(fmt.Sprintf("e%d", i)) })}
	case 19:
		return VD{K: "nodes", L: list(0, 2, func(int) VD { return g.node(t, depth-1) })}
	case 20:
		return VD{K: "pnodes", L: list(0, 3, func(int) VD {
			if rapid.IntRange(0, 3).Draw(t, "nilp") == 0 {
				return vNil()
			}
			return g.node(t, depth-1)
		})}
	case 21:
		if rapid.Bool().Draw(t, "grid") {
			return VD{K: "grid", L: list(0, 3, func(i int) VD { return vList("ints", vInt(i), vInt(i+1)) })}
		}
		return VD{K: "maps", L: list(0, 2, func(int) VD {
			m := map[string]VD{}
			for i, n := 0, rapid.IntRange(0, 2).Draw(t, "n"); i < n; i++ {
				m[g.key(t)] = g.val(t, depth-2)
			}
			return VD{K: "map", M: m}
		})}
	case 22:
		return vList("arr2", g.val(t, depth-1), g.val(t, depth-1))
	default:
		return vList("arr3", vInt(rapid.IntRange(0, 9).Draw(t, "a0")), vInt(1), vInt(2))
	}
}

func genIntMapOf(t *rapid.T, typ string) VD {
	pool := intKeyPool(typ)
	m := map[string]VD{}
	for i, n := 0, rapid.IntRange(0, 3).Draw(t, "nk"); i < n; i++ {
		m[rapid.SampledFrom(pool).Draw(t, "ik")] = vStr(fmt.Sprintf("%s#%d", typ, i))
	}
	return VD{K: "mapk", S: typ, M: m}
}

func genIntMap(t *rapid.T) VD {
	return genIntMapOf(t, rapid.SampledFrom(intKeyTypes).Draw(t, "ktype"))
}

// genQ draws one of the spellings that are defined for step k on cur.
func genQ(t *rapid.T, cur any, k string) int {
	canon := decimal(k)
	var allowed []int
	switch {
	case exoticKey(k):
		allowed = []int{2, 3}
	case numericHome(cur):
		allowed = []int{0}
		if canon {
			allowed = []int{0, 1, 1}
		}
	case canon:
		allowed = []int{0, 1, 2, 3}
	default:
		allowed = []int{0, 0, 2, 3}
	}
	return rapid.SampledFrom(allowed).Draw(t, "q")
}

// genSteps walks v with ordinary Go indexing and builds the path along the way; with some
// probability a step that must report absence is taken instead.
func genSteps(t *rapid.T, v any, maxDepth int, avoid func(string) bool) []Step {
	n := rapid.IntRange(0, maxDepth).Draw(t, "depth")
	cur, alive := v, true
	steps := []Step{}
	for i := 0; i < n; i++ {
		var k string
		if alive {
			valid := validStepsFor(cur, avoid)
			pInvalid := 1 // of 10
			if i == n-1 {
				pInvalid = 4
			}
			wantValid := rapid.IntRange(0, 9).Draw(t, "invalid") >= pInvalid
			var invalid []string
			if !wantValid || len(valid) == 0 {
				invalid = invalidSteps(cur, avoid)
			}
			switch {
			case len(invalid) > 0:
				k = rapid.SampledFrom(invalid).Draw(t, "bad")
			case len(valid) > 0:
				k = rapid.SampledFrom(valid).Draw(t, "step")
			default:
				return steps // nothing to take here (region of an open finding)
			}
		} else {
			k = rapid.SampledFrom([]string{"k", "0", "Name"}).Draw(t, "junk")
		}
		st := Step{K: k, Q: genQ(t, cur, k)}
		steps = append(steps, st)
		if alive {
			next, out, _ := index(cur, st)
			if out != reach {
				alive = false
				cur = nil
			} else {
				cur = next
			}
		}
	}
	return steps
}

func genPathCase(t *rapid.T, rec *ev.Rec, known *kf.File) PathCase {
	g := genCtx{rec: rec, avoid: avoider(rec, known), exoticOK: !known.Open(kfQuoted)}
	val := g.val(t, rapid.IntRange(1, 4).Draw(t, "vdepth"))
	c := PathCase{
		Val:   val,
		Bind:  rapid.SampledFrom(binds).Draw(t, "bind"),
		Steps: genSteps(t, val.Go(), 4, g.avoid),
	}
	if len(c.Steps) > 0 {
		if rapid.IntRange(0, 9).Draw(t, "padded") < 2 {
			c.Pad = rapid.IntRange(1, 3).Draw(t, "pad")
		}
		// twins of the keys on the path (present or not) are resolved first, mostly
		if partners := partnerPaths(c.Steps, 2); len(partners) > 0 && rapid.IntRange(0, 9).Draw(t, "partner") < 8 {
			c.Pre = partners
		}
		if hasBracketStep(c.Steps) && rapid.IntRange(0, 9).Draw(t, "mal") < 4 {
			for i, n := 0, rapid.IntRange(1, 2).Draw(t, "nmal"); i < n; i++ {
				c.Mal = append(c.Mal, rapid.IntRange(0, malVariants-1).Draw(t, "malv"))
			}
		}
	}
	return c
}

// genSeq draws a history of up to 30 ops; a model is run alongside only to aim reads at names
// that are bound and to know the scope depth.
func genSeq(t *rapid.T, rec *ev.Rec, known *kf.File) SeqCase {
	g := genCtx{rec: rec, avoid: avoider(rec, known), plain: true}
	value := func() VD {
		switch rapid.IntRange(0, 11).Draw(t, "vk") {
		case 0:
			return vNil()
		case 1, 2:
			return vList("slice", genScalar(t), genScalar(t), genScalar(t))
		case 3:
			if rapid.Bool().Draw(t, "arr") {
				return vList("arr3", vInt(1), vInt(2), vInt(3))
			}
			return vList("arr2", genScalar(t), genScalar(t))
		case 4:
			return vMap("map", map[string]VD{"a": genScalar(t), "b": genScalar(t), "k": vList("ints", vInt(1), vInt(2))})
		case 5:
			return vMap("mapss", map[string]VD{"a": vStr("sa"), "k": vStr("sk")})
		case 6, 7:
			return g.val(t, 2)
		default:
			return genScalar(t)
		}
	}
	bindings := func(max int) map[string]VD {
		m := map[string]VD{}
		for i, n := 0, rapid.IntRange(0, max).Draw(t, "nb"); i < n; i++ {
			m[rapid.SampledFrom(bigUniverse).Draw(t, "bn")] = value()
		}
		return m
	}
	var root RootD
	switch rapid.IntRange(0, 13).Draw(t, "root") {
	case 13:
		root = ortRoot(rapid.SampledFrom([]string{"data", "pdata"}).Draw(t, "okind"))
	case 11:
		root = pageRoot("data", rapid.SampledFrom([]string{"first", "last", "mid", "base"}).Draw(t, "porder"))
	case 12:
		root = pageRoot("pdata", rapid.SampledFrom([]string{"first", "last", "mid", "base"}).Draw(t, "porder"))
	case 9:
		root = eRootRoot("data")
	case 10:
		root = eRootRoot("pdata")
	case 8:
		root = anyMapRoot()
		for k, v := range bindings(3) {
			root.Data.M[k] = v
		}
	case 6:
		root = rowRoot("row", rapid.SampledFrom([]string{"a", "b", "c"}).Draw(t, "rowv"))
	case 7:
		root = rowRoot("prow", rapid.SampledFrom([]string{"a", "b", "c"}).Draw(t, "rowv"))
	case 0:
		root = RootD{Kind: "nil"}
	case 1:
		root = RootD{Kind: "map", Map: bindings(4)}
	case 2, 3:
		root = structRoot("struct", nil)
	case 4:
		root = structRoot("ptr", nil)
	default:
		root = RootD{Kind: "nilptr"}
	}
	if root.Kind == "struct" || root.Kind == "ptr" {
		root.Plain = rapid.SampledFrom([]string{"", "P"}).Draw(t, "Plain")
		root.Tagged = rapid.IntRange(0, 3).Draw(t, "Tagged")
		if rapid.Bool().Draw(t, "hasAny") {
			v := g.val(t, 2)
			root.Any = &v
		}
		if rapid.Bool().Draw(t, "hasMap") {
			root.Map = bindings(3)
		}
	}
	c := SeqCase{Root: root}
	if rapid.Bool().Draw(t, "hasPrelude") {
		c.Prelude = rapid.IntRange(1, 2).Draw(t, "prelude")
	}
	if known.Open(kfGoName) && (root.Kind == "struct" || root.Kind == "ptr") {
		c.EnvSkip = []string{"Tagged", "Sub"}
		rec.Excluded(kfGoName)
	}
	if known.Open(kfTagOverName) && (root.Kind == "struct" || root.Kind == "ptr") {
		c.EnvSkip = append(c.EnvSkip, "Kind")
		rec.Excluded(kfTagOverName)
	}
	if root.Data != nil && root.Data.K == "ort" {
		c.Names = append(append([]string(nil), ortUniverse...), "y", "Plain")
	}
	if root.Data != nil && root.Data.K == "page" {
		c.Names = append(append([]string(nil), pageUniverse...), "y", "Plain", "ID")
	}
	if root.Data != nil && root.Data.K == "eroot" {
		c.Names = append(eNames(known.Open(kfPromotedTag)), "y", "Plain", "ID")
		if known.Open(kfPromotedTag) {
			rec.Excluded(kfPromotedTag)
		}
		if known.Open(kfPromotedEnv) {
			c.EnvSkip = ePromoted
			rec.Excluded(kfPromotedEnv)
		}
		if known.Open(kfTagOverName) {
			c.EnvSkip = append(append([]string(nil), c.EnvSkip...), "Code")
			rec.Excluded(kfTagOverName)
		}
	} else if root.Kind == "data" && known.Open(kfMapRoot) {
		c.EnvSkip = bigUniverse
		rec.Excluded(kfMapRoot)
	}
	models := []*model{newModel(root)}
	cur := 0
	n := rapid.IntRange(1, 30).Draw(t, "nops")
	for i := 0; i < n; i++ {
		var op Op
		switch w := rapid.IntRange(0, 99).Draw(t, "op"); {
		case w < 14:
			op = Op{K: "push", M: bindings(3)}
		case w < 22:
			op = Op{K: "pushnil"}
		case w < 36:
			op = Op{K: "pop"}
		case w < 60:
			v := value()
			op = Op{K: "set", N: rapid.SampledFrom(bigUniverse).Draw(t, "sn"), V: &v}
		case w < 64:
			op = Op{K: "copy"}
		case w < 68:
			op = Op{K: "copyuse"}
		case w < 74:
			op = Op{K: "use", I: rapid.IntRange(0, 3).Draw(t, "ui")}
		default:
			kind := "resolve"
			if w < 82 {
				kind = "foreach"
			} else if w < 88 {
				kind = "get"
			}
			name := rapid.SampledFrom(bigUniverse).Draw(t, "rn")
			if bound := sortedKeys(models[cur].flatten()); len(bound) > 0 && rapid.IntRange(0, 3).Draw(t, "bound") > 0 {
				name = rapid.SampledFrom(bound).Draw(t, "rb") // mostly read names that are bound
			}
			op = Op{K: kind, N: name}
			if base, _, ok := models[cur].lookup(name); ok {
				op.P = genSteps(t, base, 2, g.avoid)
			} else if rapid.Bool().Draw(t, "junkpath") {
				op.P = []Step{{K: "k"}}
			}
			if kind == "foreach" {
				op.I = rapid.IntRange(0, 3).Draw(t, "stop")
			}
		}
		c.Ops = append(c.Ops, op)
		models, cur, _ = apply(models, cur, op)
	}
	return c
}
