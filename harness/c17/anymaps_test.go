package c17

import (
	"sort"
	"strconv"
	"strings"
)

// Maps whose key type is an interface (map[any]any, map[any]string, as YAML decoders produce) or
// a named string type. A path step is text: it denotes the string key, so m["name"] is the
// element ordinary Go indexing reaches. Such maps may also hold non-string keys (the int 1 next
// to the string "1"): a step "1" reaches the string key when there is one; when only the int key
// exists the statement does not say whether the step denotes it (left unasserted).

type skey string

// anyKey decodes a description key: "#12" is the int 12, everything else the string itself.
func anyKey(k string) any {
	if strings.HasPrefix(k, "#") {
		if n, err := strconv.Atoi(k[1:]); err == nil {
			return n
		}
	}
	return k
}

func buildAnyMap(v VD) any {
	switch v.K {
	case "mapaa":
		m := make(map[any]any, len(v.M))
		for k, e := range v.M {
			m[anyKey(k)] = e.Go()
		}
		return m
	case "mapas":
		m := make(map[any]string, len(v.M))
		for k, e := range v.M {
			m[anyKey(k)] = e.S
		}
		return m
	}
	m := make(map[skey]string, len(v.M)) // "mapns"
	for k, e := range v.M {
		m[skey(k)] = e.S
	}
	return m
}

// indexAnyMap is the part of index() for these maps (after dereferencing).
func indexAnyMap(cur any, st Step, pfx string) (any, string, string, bool) {
	k := st.K
	intTwin := func(has func(n int) bool) bool {
		n, numeric, _ := canonInt(k)
		return numeric && has(n)
	}
	switch c := cur.(type) {
	case map[any]any:
		kind := pfx + "map[any]any"
		if v, ok := c[k]; ok {
			return v, reach, kind, true
		}
		if intTwin(func(n int) bool { _, ok := c[n]; return ok }) {
			return nil, unspec, kind, true
		}
		return nil, rMissingKey, kind, true
	case map[any]string:
		kind := pfx + "map[any]string"
		if v, ok := c[k]; ok {
			return v, reach, kind, true
		}
		if intTwin(func(n int) bool { _, ok := c[n]; return ok }) {
			return nil, unspec, kind, true
		}
		return nil, rMissingKey, kind, true
	case map[skey]string:
		kind := pfx + "map[named string]string"
		if v, ok := c[skey(k)]; ok {
			return v, reach, kind, true
		}
		return nil, rMissingKey, kind, true
	}
	return nil, "", "", false
}

// anyMapKeys lists the string keys of such a map (after dereferencing).
func anyMapKeys(cur any) ([]string, bool) {
	d, out, _ := deref(cur)
	if out != reach {
		return nil, false
	}
	var keys []string
	switch c := d.(type) {
	case map[any]any:
		for k := range c {
			if s, ok := k.(string); ok {
				keys = append(keys, s)
			}
		}
	case map[any]string:
		for k := range c {
			if s, ok := k.(string); ok {
				keys = append(keys, s)
			}
		}
	case map[skey]string:
		for k := range c {
			keys = append(keys, string(k))
		}
	default:
		return nil, false
	}
	sort.Strings(keys)
	return keys, true
}

// looseZoo: interface-keyed maps at the top, nested in each other, in slices, behind pointers, in
// struct fields; string keys next to int keys ("1" and 1 both present; 2 only as an int).
func looseZoo() VD {
	n := zooNode("lz", false)
	n.M["Any"] = VD{K: "mapaa", M: map[string]VD{"in": vStr("struct field")}}
	return VD{K: "mapaa", M: map[string]VD{
		"name":   vStr("vuego"),
		"nested": {K: "mapaa", M: map[string]VD{"k": vList("ints", vInt(7), vInt(8)), "deep": {K: "mapas", M: map[string]VD{"x": vStr("y")}}}},
		"1":      vStr("string-one"),
		"#1":     vStr("int-one"),
		"#2":     vStr("int-two"),
		"las":    {K: "mapas", M: map[string]VD{"x": vStr("y"), "#3": vStr("int-three"), "first name": vStr("blank")}},
		"list":   vList("slice", VD{K: "mapas", M: map[string]VD{"x": vStr("y")}}, VD{K: "mapaa", M: map[string]VD{"k": vInt(1)}}),
		"p":      vList("ptr", VD{K: "mapaa", M: map[string]VD{"k": vStr("behind pointer")}}),
		"ns":     {K: "mapns", M: map[string]VD{"a": vStr("named-a"), "0": vStr("named-zero")}},
		"n":      n,
		"sm":     vMap("map", map[string]VD{"loose": {K: "mapaa", M: map[string]VD{"k": vStr("inside map[string]any")}}}),
	}}
}
