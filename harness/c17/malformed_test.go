package c17

import "strings"

// Malformed paths: a '[' that is never closed (a[, a[0, m['k, a[0].b[ ...). What such a path
// resolves to is not asserted (it names no element in general, but the unclosed text can itself
// be a map key); what is asserted is that resolving it leaves no trace: a well-formed path
// resolved right afterwards - in particular a bracketed spelling that is new to vuego's path
// cache - still reaches the element Go indexing reaches. A PathCase lists the malformed variants
// (Mal) to derive from its own spelling; they are resolved immediately before the path under test.

const malVariants = 6

// malformed derives an unbalanced-bracket path from the well-formed spelling p.
func malformed(p string, variant int) string {
	lastOpen, lastClose := strings.LastIndex(p, "["), strings.LastIndex(p, "]")
	switch variant % malVariants {
	case 0: // cut right after the last '[':  rows[
		if lastOpen >= 0 {
			return p[:lastOpen+1]
		}
	case 1: // drop the last ']' and what follows:  rows[0   m['k'
		if lastClose >= 0 {
			return p[:lastClose]
		}
	case 2: // drop the closing quote as well:  m['k
		if lastClose > 0 {
			return strings.TrimRight(p[:lastClose], "'\" ")
		}
	case 3: // a dangling bracket behind the whole path:  rows[0].name[
		return p + "["
	case 4:
		return p + "[0"
	}
	return p + ".x['k"
}

func hasBracketStep(steps []Step) bool {
	for _, st := range steps {
		if st.Q >= 1 {
			return true
		}
	}
	return false
}
