package c17

import (
	"fmt"
	"strings"

	"verif/internal/ev"
	"verif/internal/run"
)

// Map keys that differ only by blanks inside the key ("first name" / "firstname", "a b" / "a  b"
// / "ab"). They are different keys for Go indexing; paths naming them must never be confused
// with one another, whichever of them the process resolved first (vuego keeps a package-global
// cache of parsed paths). A PathCase therefore may carry collision partners (Pre) that are
// resolved - and checked - before the path under test.

var twinPool = []string{
	"first name", "firstname",
	"a b", "a  b", "ab",
	"x y", "xy",
	"p q", "pq",
	"k k", "kk",
	"t t", "tt",
	"u v", "uv",
	"z z", "zz",
}

func tight(k string) string { return strings.ReplaceAll(k, " ", "") }

// twins lists the other pool keys that equal k once blanks are removed.
func twins(k string) []string {
	var out []string
	tk := tight(k)
	for _, p := range twinPool {
		if p != k && tight(p) == tk {
			out = append(out, p)
		}
	}
	if len(out) > 0 {
		found := false
		for _, p := range twinPool {
			found = found || p == k
		}
		if !found {
			return nil
		}
	}
	return out
}

// partnerPaths: the same path with one step's key replaced by a twin (same spelling), for every
// step and twin; at most max of them.
func partnerPaths(steps []Step, max int) [][]Step {
	var out [][]Step
	for i, st := range steps {
		for _, tw := range twins(st.K) {
			if len(out) == max {
				return out
			}
			p := append([]Step(nil), steps...)
			p[i] = Step{K: tw, Q: st.Q}
			out = append(out, p)
		}
	}
	return out
}

func hasTwinStep(steps []Step) bool {
	for _, st := range steps {
		if len(twins(st.K)) > 0 {
			return true
		}
	}
	return false
}

// twinZoo: twins in the same map (both present with different values; only one present) and in
// different maps, at the top and nested in every string-keyed container kind.
func twinZoo() VD {
	n := zooNode("tw", false)
	n.M["M"] = vMap("map", map[string]VD{"a b": vStr("n.M blank"), "ab": vStr("n.M tight")})
	n.M["Tags"] = vMap("mapss", map[string]VD{"t t": vStr("tag blank"), "tt": vStr("tag tight")})
	return vMap("map", map[string]VD{
		"first name": vStr("with blank"),
		"firstname":  vStr("without blank"),
		"a b":        vInt(1),
		"a  b":       vInt(2),
		"ab":         vInt(3),
		"x y":        vStr("only the blank spelling exists"),
		"pq":         vStr("only the tight spelling exists"),
		"in":         vMap("map", map[string]VD{"k k": vStr("deep blank"), "kk": vStr("deep tight"), "z z": vInt(5)}),
		"ss":         vMap("mapss", map[string]VD{"first name": vStr("s1"), "firstname": vStr("s2"), "u v": vStr("s3")}),
		"si":         vMap("mapsi", map[string]VD{"a b": vInt(10), "ab": vInt(20)}),
		"m1":         vMap("map", map[string]VD{"first name": vInt(1), "xy": vInt(2)}),
		"m2":         vMap("map", map[string]VD{"firstname": vInt(3), "x y": vInt(4)}),
		"n":          n,
		"p":          vList("ptr", vMap("map", map[string]VD{"a b": vStr("behind pointer, blank"), "ab": vStr("behind pointer, tight")})),
		"l":          vList("slice", vMap("map", map[string]VD{"u v": vInt(7)}), vMap("map", map[string]VD{"uv": vInt(8)})),
	})
}

// enumTwins runs, in every shard and before anything else has filled vuego's path cache, every
// path of <= 3 steps over twinZoo that names a twin key (existing keys and their absent twins), in
// the four uniform spellings; each case resolves the collision partners first, alternately with
// the blank-free and the blank-carrying spelling under test. A second pass repeats them with
// blanks around the whole path / around dots and inside brackets.
func enumTwins(rec *ev.Rec) (int, bool) {
	z := twinZoo()
	root := z.Go()
	var paths [][]Step
	for mode := 0; mode < 4; mode++ {
		var walkRec func(cur any, steps []Step)
		walkRec = func(cur any, steps []Step) {
			if len(steps) > 0 && hasTwinStep(steps) {
				paths = append(paths, append([]Step(nil), steps...))
			}
			if len(steps) == 3 {
				return
			}
			valid := validSteps(cur)
			cands := append([]string(nil), valid...)
			seen := map[string]bool{}
			for _, k := range valid {
				seen[k] = true
			}
			for _, k := range valid {
				for _, tw := range twins(k) {
					if !seen[tw] {
						seen[tw] = true
						cands = append(cands, tw) // the absent twin of an existing key
					}
				}
			}
			for _, k := range cands {
				st := Step{K: k, Q: pickQ(mode, len(steps), cur, k)}
				next, out, _ := index(cur, st)
				if out != reach {
					if len(twins(k)) > 0 {
						paths = append(paths, append(append([]Step(nil), steps...), st))
					}
					continue
				}
				walkRec(next, append(steps, st))
			}
		}
		walkRec(root, nil)
	}
	n := 0
	for pass := 0; pass < 2; pass++ {
		for _, p := range paths {
			partners := partnerPaths(p, 3)
			if len(partners) == 0 {
				continue
			}
			c := PathCase{Val: z, Bind: binds[n%len(binds)], Steps: p, Pre: partners}
			if n%2 == 1 {
				c.Steps, c.Pre = partners[0], [][]Step{p}
			}
			if pass == 1 {
				c.Pad = 1 + n%3
			}
			if n%4 == 0 && hasBracketStep(c.Steps) {
				c.Mal = []int{n / 4} // while the path cache is still filling: a poisoned split would be stored
			}
			n++
			nt, cls := classifyPath(c)
			if !run.Each(rec, "pathtwins", c, nt, cls, checkPath) {
				return n, false
			}
		}
	}
	return n, true
}

// spellPad is spell with optional blanks: pad&1 around the whole path, pad&2 around dots and
// inside brackets. vuego trims these today; the expected element is that of the unpadded path.
func spellPad(name string, steps []Step, pad int) (string, bool, bool) {
	if pad == 0 || len(steps) == 0 {
		return spell(name, steps)
	}
	if _, ok, _ := spell(name, steps); !ok {
		return "", false, false
	}
	var b strings.Builder
	b.WriteString(name)
	exotic := false
	for _, st := range steps {
		in, out := "", ""
		if pad&2 != 0 {
			in, out = " ", " "
		}
		switch st.Q {
		case 0:
			b.WriteString(out + "." + in + st.K)
		case 1:
			b.WriteString("[" + in + st.K + in + "]")
		case 2:
			exotic = exotic || exoticKey(st.K)
			b.WriteString("[" + in + "'" + st.K + "'" + in + "]")
		case 3:
			exotic = exotic || exoticKey(st.K)
			b.WriteString("[" + in + "\"" + st.K + "\"" + in + "]")
		}
	}
	s := b.String()
	if pad&1 != 0 {
		s = " " + s + "  "
	}
	return s, true, exotic
}

func describeSteps(steps []Step) string {
	s, _, _ := spell("v", steps)
	return fmt.Sprintf("%q", s)
}
