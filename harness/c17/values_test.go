package c17

import (
	"fmt"
	"reflect"
	"sort"
	"strconv"
)

// ---------------------------------------------------------------------------------------
// Local Go types used as data. They exist only here, so the expected element of every path
// can be written down with ordinary Go field access in oracle_test.go.
// ---------------------------------------------------------------------------------------

// Leaf is embedded by value in Node (promoted fields Deep, Num).
type Leaf struct {
	Deep string
	Num  int `json:"num"`
}

// PLeaf is embedded by pointer in Node (promoted field PDeep, unreachable when nil).
type PLeaf struct{ PDeep string }

// Node is the struct used inside nested values: plain, JSON-tagged, unexported and embedded fields.
type Node struct {
	Name   string
	Title  string `json:"title"`
	Count  int    `json:"count,omitempty"`
	Any    any    `json:"any"`
	Kids   []any
	Next   *Node `json:"next"`
	Arr    [2]any
	Tags   map[string]string `json:"tags"`
	Small  map[int8]string   `json:"small"`
	Bytes  map[uint8]string
	M      map[string]any
	Short  string `json:"id"`                    // two tags that differ only in case: "id" ...
	Long   string `json:"ID"`                    // ... and "ID"
	Type   string `json:"Kind"`                  // an EARLIER field whose JSON tag spells ...
	Kind   string `json:"kind"`                  // ... the Go name of a later field: x.Kind is this one
	Acct   int    `json:"acct,omitempty,string"` // several options after the name
	Bare   string `json:",omitempty"`            // options only: the name is the Go name
	hidden string
	secret any
	Leaf
	*PLeaf
}

// subT is a struct-valued field of the root struct.
type subT struct {
	A string `json:"a"`
}

// rootT is the struct used as root data: a plain field, a JSON-tagged field, an unexported field,
// a slice (for ForEach/GetSlice), a struct-valued field and an interface field holding anything.
type rootT struct {
	Plain  string
	Tagged int `json:"tagged"`
	hidden string
	List   []int
	Sub    subT   `json:"sub"`
	Any    any    `json:"any"`
	Short  string `json:"id"` // two tags that differ only in case
	Long   string `json:"ID"`
	Token  string `json:"-"`    // exported, hidden from encoding/json: still a Go field
	Dash   string `json:"-,"`   // encoding/json: the literal name "-"
	Type   string `json:"Kind"` // tag of an earlier field = Go name of the next field
	Kind   string `json:"kind"`
	Acct   int    `json:"acct,omitempty,string"` // several options after the name
	Bare   string `json:",omitempty"`            // options only: the name is the Go name
}

// VD is a JSON-serialisable description of a Go value.
type VD struct {
	K string        `json:"k"`
	S string        `json:"s,omitempty"`
	L []VD          `json:"l,omitempty"`
	M map[string]VD `json:"m,omitempty"`
}

func vStr(s string) VD { return VD{K: "str", S: s} }
func vInt(n int) VD    { return VD{K: "int", S: strconv.Itoa(n)} }
func vNil() VD         { return VD{K: "nil"} }
func vList(k string, l ...VD) VD {
	if l == nil {
		l = []VD{}
	}
	return VD{K: k, L: l}
}
func vMap(k string, m map[string]VD) VD {
	if m == nil {
		m = map[string]VD{}
	}
	return VD{K: k, M: m}
}

func atoi(s string) int { n, _ := strconv.Atoi(s); return n }

func sortedKeys[T any](m map[string]T) []string {
	out := make([]string, 0, len(m))
	for k := range m {
		out = append(out, k)
	}
	sort.Strings(out)
	return out
}

// Go builds a fresh typed Go value from the description (every call builds new maps/slices, so
// the value given to vuego and the value kept by the model never alias).
func (v VD) Go() any {
	switch v.K {
	case "nil", "":
		return nil
	case "int":
		return atoi(v.S)
	case "str":
		return v.S
	case "bool":
		return v.S == "true"
	case "f64":
		f, _ := strconv.ParseFloat(v.S, 64)
		return f
	case "int8", "int16", "int32", "int64", "uint", "uint8", "uint16", "uint32", "uint64", "f32":
		n, _ := buildNum(v)
		return n
	case "iotaints", "iotastrs", "iotaany":
		l, _ := buildIota(v)
		return l
	case "map":
		m := make(map[string]any, len(v.M))
		for k, e := range v.M {
			m[k] = e.Go()
		}
		return m
	case "mapss":
		m := make(map[string]string, len(v.M))
		for k, e := range v.M {
			m[k] = e.S
		}
		return m
	case "mapsi":
		m := make(map[string]int, len(v.M))
		for k, e := range v.M {
			m[k] = atoi(e.S)
		}
		return m
	case "mapk":
		return buildIntMap(v)
	case "row":
		return rowKindNamed(v.S).build(v.M)
	case "eroot":
		return buildERoot(v)
	case "page":
		return buildPage(v)
	case "ort":
		return buildOrt(v)
	case "mapsls", "mapsla", "mapsm", "mapsli", "mapsp":
		return buildTypedMap(v)
	case "mapaa", "mapas", "mapns":
		return buildAnyMap(v)
	case "mapis":
		m := make(map[int]string, len(v.M))
		for k, e := range v.M {
			m[atoi(k)] = e.S
		}
		return m
	case "nilmap":
		return map[string]any(nil)
	case "slice":
		out := make([]any, len(v.L))
		for i, e := range v.L {
			out[i] = e.Go()
		}
		return out
	case "nilslice":
		return []any(nil)
	case "ints":
		out := make([]int, len(v.L))
		for i, e := range v.L {
			out[i] = atoi(e.S)
		}
		return out
	case "strs":
		out := make([]string, len(v.L))
		for i, e := range v.L {
			out[i] = e.S
		}
		return out
	case "nodes":
		out := make([]Node, len(v.L))
		for i, e := range v.L {
			out[i] = e.node()
		}
		return out
	case "pnodes":
		out := make([]*Node, len(v.L))
		for i, e := range v.L {
			if e.K == "node" {
				n := e.node()
				out[i] = &n
			}
		}
		return out
	case "maps":
		out := make([]map[string]any, len(v.L))
		for i, e := range v.L {
			m := make(map[string]any, len(e.M))
			for k, x := range e.M {
				m[k] = x.Go()
			}
			out[i] = m
		}
		return out
	case "grid":
		out := make([][]int, len(v.L))
		for i, e := range v.L {
			row := make([]int, len(e.L))
			for j, x := range e.L {
				row[j] = atoi(x.S)
			}
			out[i] = row
		}
		return out
	case "arr2":
		var out [2]any
		for i, e := range v.L {
			if i < 2 {
				out[i] = e.Go()
			}
		}
		return out
	case "arr3":
		var out [3]int
		for i, e := range v.L {
			if i < 3 {
				out[i] = atoi(e.S)
			}
		}
		return out
	case "ptr":
		var inner any
		if len(v.L) > 0 {
			inner = v.L[0].Go()
		}
		if inner == nil {
			return (*int)(nil)
		}
		p := reflect.New(reflect.TypeOf(inner))
		p.Elem().Set(reflect.ValueOf(inner))
		return p.Interface()
	case "nilptr":
		switch v.S {
		case "slice":
			return (*[]any)(nil)
		case "map":
			return (*map[string]any)(nil)
		case "int":
			return (*int)(nil)
		}
		return (*Node)(nil)
	case "node":
		return v.node()
	case "leaf":
		return Leaf{Deep: v.M["Deep"].S, Num: atoi(v.M["Num"].S)}
	case "sub":
		return subT{A: v.S}
	}
	panic(fmt.Sprintf("c17: unknown value kind %q", v.K))
}

func (v VD) node() Node {
	n := Node{
		Name:   v.M["Name"].S,
		Title:  v.M["Title"].S,
		Count:  atoi(v.M["Count"].S),
		hidden: v.M["hidden"].S,
		Short:  v.M["Short"].S,
		Long:   v.M["Long"].S,
		Type:   v.M["Type"].S,
		Kind:   v.M["Kind"].S,
		Acct:   atoi(v.M["Acct"].S),
		Bare:   v.M["Bare"].S,
		Leaf:   Leaf{Deep: v.M["Deep"].S, Num: atoi(v.M["Num"].S)},
	}
	if a, ok := v.M["Any"]; ok {
		n.Any = a.Go()
	}
	if k, ok := v.M["Kids"]; ok {
		n.Kids = make([]any, len(k.L))
		for i, e := range k.L {
			n.Kids[i] = e.Go()
		}
	}
	if nx, ok := v.M["Next"]; ok && nx.K == "node" {
		nn := nx.node()
		n.Next = &nn
	}
	if a, ok := v.M["Arr"]; ok {
		for i, e := range a.L {
			if i < 2 {
				n.Arr[i] = e.Go()
			}
		}
	}
	if sm, ok := v.M["Small"]; ok && sm.K == "mapk" && sm.S == "int8" {
		n.Small = buildIntMapS[int8](sm.M)
	}
	if by, ok := v.M["Bytes"]; ok && by.K == "mapk" && by.S == "uint8" {
		n.Bytes = buildIntMapU[uint8](by.M)
	}
	if tg, ok := v.M["Tags"]; ok {
		n.Tags = make(map[string]string, len(tg.M))
		for k, e := range tg.M {
			n.Tags[k] = e.S
		}
	}
	if m, ok := v.M["M"]; ok {
		n.M = make(map[string]any, len(m.M))
		for k, e := range m.M {
			n.M[k] = e.Go()
		}
	}
	if s, ok := v.M["secret"]; ok {
		n.secret = s.Go()
	}
	if p, ok := v.M["PDeep"]; ok {
		n.PLeaf = &PLeaf{PDeep: p.S}
	}
	return n
}

// nilish reports whether a value is nil in any sense (nil interface, nil pointer/map/slice).
// The statement leaves open whether a binding or element holding such a value is reported as
// present (Resolve documents (nil,false) for nil values), so presence is not asserted for them.
func nilish(v any) bool {
	if v == nil {
		return true
	}
	rv := reflect.ValueOf(v)
	switch rv.Kind() {
	case reflect.Ptr, reflect.Map, reflect.Slice, reflect.Interface, reflect.Func, reflect.Chan:
		return rv.IsNil()
	}
	return false
}

func show(v any) string {
	s := fmt.Sprintf("%#v", v)
	if len(s) > 300 {
		s = s[:300] + "…"
	}
	return s
}
