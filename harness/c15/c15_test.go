// Package c15 decides C15: at every point of a history of template edits and renders, a
// long-lived engine renders what an engine created just now renders from the current files.
//
// A case is a history (pure data) over an in-memory filesystem holding a page, a component
// included by the page, a named layout and the optional default layout. One long-lived pair of
// engines (vuego.NewFS root template + vuego.NewVue) lives through the whole history. After
// every render op the same entry point is run on an engine created at that moment on a
// snapshot of the files; the two results must agree (error presence, and parsed HTML when both
// succeed). The expected result therefore never comes from the long-lived engine's state.
//
// Deliberately not asserted:
//   - equal-mtime edits (statement: "equal-mtime edits excluded from the freshness claim"):
//     when a file that a render depends on currently has an mtime under which an earlier render
//     of the long-lived engine could have seen *different* content, the comparison of that render
//     is skipped and counted. This covers the plain same-mtime edit and the case where the mtime
//     travels away and back (edit +1, edit -1) between two renders: from the engine's point of
//     view both are "content changed, mtime equal". The comparison resumes as soon as the file
//     gets an mtime the engine has not seen with other content.
//   - error texts, partial output of failed renders, whitespace/attribute order (internal/hx).
//   - that a cache exists at all: file-open counts are only used to *classify* a history as
//     one in which a render was provably answered from the cache, never to fail it.
//   - theme.yml / data/*.yml are read once at construction by design; histories never touch them.
//   - zero mtimes ("unknown" to the cache): all mtimes are >= 1 s.
package c15

import (
	"bytes"
	"context"
	"encoding/json"
	"fmt"
	iofs "io/fs"
	"sort"
	"strings"
	"testing"
	"time"

	"github.com/titpetric/vuego"
	"pgregory.net/rapid"

	"verif/internal/ev"
	"verif/internal/hx"
	"verif/internal/kf"
	"verif/internal/memfs"
	"verif/internal/run"
)

const prop = "C15"

const (
	fPage = "page.vuego"
	fComp = "comp.vuego"
	fMain = "layouts/main.vuego"
	fBase = "layouts/base.vuego"
	fRel  = "main.vuego" // a layout named "main" NEXT TO the page: wins over layouts/main.vuego when present
	fLess = "vars.less"  // @import-ed by the LESS style block of page variant 10 (engine option procLess)
	// fBadge: with Case.Comps the engines register the shorthand <badge> for it (WithComponents()
	// scans components/ at construction, Vue.RegisterComponent names it): it is edited, never
	// deleted or created (the set of shorthands is fixed at construction by design)
	fBadge = "components/Badge.vuego"
)

var allFiles = []string{fPage, fComp, fMain, fBase, fRel, fLess, fBadge}

const (
	eLoadRender = "load-render"  // root.Load(f).Fill(data).Render(ctx, w)
	eRenderFile = "render-file"  // root.RenderFile(ctx, w, f)
	eVueRender  = "vue-render"   // vue.Render(w, f, data)   (the cached path)
	eVueFrag    = "vue-fragment" // vue.RenderFragment(w, f, data)
)

var allEntries = []string{eLoadRender, eRenderFile, eVueRender, eVueFrag}

// The model counts mtimes in nanoseconds since the Unix epoch (0 = the zero time).
const sec = int64(1_000_000_000)

const t0 = 100 * sec // initial mtime of every file

// variant is one possible content of a file. The flags describe the content to the harness
// model (dependency closure, classification); they are facts about the text, not about vuego.
type variant struct {
	Content  string
	LoadOK   bool   // front-matter (if any) is well-formed YAML mapping
	RenderOK bool   // body evaluates without error (given its dependencies are fine)
	Layout   string // "layout:" named by the front-matter: "", "main", "base"
	Include  bool   // body includes comp.vuego
	Less     bool   // body has a <style type="text/css+less"> block importing vars.less
	Badge    bool   // body uses the component shorthand <badge label=...>
	Long     bool   // a generated source of several KiB (kept out of the ordinary random choices: slow)
}

const inc = `<template include="comp.vuego"></template>`

var variants = map[string][]variant{
	fPage: {
		0: {Content: `<div data-m="page">P0 {{ title }} {{ x }}` + inc + `</div>`, LoadOK: true, RenderOK: true, Include: true},
		1: {Content: "---\ntitle: T1\nlayout: main\n---\n" + `<div data-m="page">P1 {{ title }} {{ x }}` + inc + `<style v-once>.p1{}</style></div>`, LoadOK: true, RenderOK: true, Layout: "main", Include: true},
		2: {Content: "---\ntitle: T2\n---\n" + `<div data-m="page">P2 {{ title }} {{ x }}` + inc + `</div>`, LoadOK: true, RenderOK: true, Include: true},
		3: {Content: "---\nlayout: main\ntitle: T3\n---\n" + `<p data-m="page">P3 {{ title }}</p>`, LoadOK: true, RenderOK: true, Layout: "main"},
		// unterminated front-matter: by loader.go this is "no front-matter", the text is the template
		4: {Content: "---\ntitle: U4\n" + `<p data-m="page">P4 {{ x }}</p>`, LoadOK: true, RenderOK: true},
		5: {Content: "---\ntitle: [unterminated\n---\n<p>bad5</p>"},
		6: {Content: "---\n- a\n- b\n---\n<p>bad6</p>"},
		7: {Content: "---\ntitle: T7\n---\n" + `<p data-m="page" v-for="q in">P7</p>`, LoadOK: true},
		// 8, 9: the body rewrites front-matter keys in its root scope. Every render must start from
		// the file's front-matter again ("visit 2", "hello!"), whatever earlier renders did.
		8: {Content: "---\nn: 1\ngreeting: hello\n---\n" + `<template :n="n + 1" :greeting="greeting + '!'"></template><div data-m="page">P8 {{ greeting }} visit {{ n }} {{ x }}` + inc + `</div>`, LoadOK: true, RenderOK: true, Include: true},
		// 11, 12: the page hands a named slot template to its layout, so every version of the page
		// is visible in the body AND in the layout's <slot name="sidebar"> (main variant 4,
		// base variant 3); they also rewrite front-matter keys in their scope like 8 and 9
		11: {Content: "---\ntitle: T11\nlayout: main\nn: 5\n---\n" + `<template #sidebar><p data-m="side">S11 {{ title }}</p></template>` + "\n" + `<div data-m="page">P11 <template :n="n * 2" :title="title + '+'"></template>{{ n }} {{ title }} {{ x }}` + inc + `</div>`, LoadOK: true, RenderOK: true, Layout: "main", Include: true},
		12: {Content: "---\nn: 1\ngreeting: hello\ntitle: T12\n---\n" + `<template #sidebar><p data-m="side">S12 {{ greeting }}</p></template>` + "\n" + `<div data-m="page">P12 <template :n="n + 1" :greeting="greeting + '!'"></template>{{ greeting }} visit {{ n }} {{ x }}` + inc + `</div>`, LoadOK: true, RenderOK: true, Include: true},
		// 13: front-matter values of non-string YAML types, read type-sensitively (| type, a
		// registered func(int), | json, arithmetic, date formatting, integers >= 1e6): a value must
		// have the same Go type whether the render loaded the file or was answered from the cache
		13: {Content: "---\ntitle: T13\ncount: 3\nbig: 1000000\nhuge: 2147483648\nratio: 1.5\nflag: true\nwhen: 2024-01-02\nstamp: 2024-01-02T03:04:05Z\nnums: [1, 2, 3]\nnested:\n  depth: 4\n---\n" +
			`<div data-m="page">P13 {{ title }} {{ x }}` +
			`<code>{{ count | type }} {{ big | type }} {{ huge | type }} {{ ratio | type }} {{ flag | type }} {{ when | type }} {{ nums | type }} {{ nested | type }}</code>` +
			`<code>{{ big }} {{ huge }} {{ count + 1 }} {{ big * 2 }} {{ ratio }}</code>` +
			`<code>{{ nums | json }} {{ nested | json }} {{ when | json }}</code>` +
			`<code>{{ when | formatDate("02.01.2006") }} {{ stamp | formatTime("2006") }} {{ nested.depth | type }} {{ nested.depth + 1 }} {{ times3(count) }}</code>` +
			`<i v-for="n in nums">{{ n | type }}={{ n }}</i>` + inc + `</div>`, LoadOK: true, RenderOK: true, Include: true},
		// 14, 15: differ ONLY in the blanks inside string literals of expressions, rendered into
		// white-space-significant places (<pre>, an attribute value), a v-if against a padded string,
		// and ordinary text
		14: {Content: "---\nlabel: Total\nunit: kg\npad: \"x  y\"\n---\n" + `<pre data-m="page">{{ label + ':     ' + unit }}</pre><i :title="'a   b' + unit">t {{ x }}</i><b v-if="pad == 'x  y'">padded</b><p>{{ label + ' |   | ' + unit }}</p><div>` + inc + `</div>`, LoadOK: true, RenderOK: true, Include: true},
		15: {Content: "---\nlabel: Total\nunit: kg\npad: \"x  y\"\n---\n" + `<pre data-m="page">{{ label + ': ' + unit }}</pre><i :title="'a b' + unit">t {{ x }}</i><b v-if="pad == 'x y'">padded</b><p>{{ label + ' | | ' + unit }}</p><div>` + inc + `</div>`, LoadOK: true, RenderOK: true, Include: true},
		// 16: reads structured caller data through expressions with operators (see testData)
		16: {Content: `<div data-m="page">P16 {{ x }}<ul><li v-for="it in posts" :title="it.Title + ' /' + it.Slug" v-if="it.Words > 10">{{ it.Title + "!" }} {{ it.Words + 1 }}</li></ul><p v-if="lead">{{ lead.Title + "?" }} {{ lead.Words * 2 }}</p>` + inc + `</div>`, LoadOK: true, RenderOK: true, Include: true},
		// 10: a LESS style block whose CSS depends on the imported vars.less (compiled on every
		// render when the LESS processor is registered; left alone otherwise)
		10: {Content: "<style type=\"text/css+less\">\n@import \"vars.less\";\n.box {\n  color: @brand;\n}\n</style>\n" + `<div data-m="page" class="box">P10 {{ title }} {{ x }}` + inc + `</div>`, LoadOK: true, RenderOK: true, Include: true, Less: true},
		9:  {Content: "---\ntitle: T9\nlayout: main\nn: 5\n---\n" + `<div data-m="page">P9 <template :n="n * 2" :title="title + '+'"></template>{{ n }} {{ title }} {{ x }}` + inc + `</div>`, LoadOK: true, RenderOK: true, Layout: "main", Include: true},
	},
	fComp: {
		0: {Content: `<span data-m="comp">C0 {{ title }}</span>`, LoadOK: true, RenderOK: true},
		1: {Content: "---\nnote: N1\n---\n" + `<span data-m="comp">C1 {{ note }} {{ title }}</span>`, LoadOK: true, RenderOK: true},
		2: {Content: `<em data-m="comp">C2</em>`, LoadOK: true, RenderOK: true},
		3: {Content: "---\nnote: [oops\n---\n<i>bad3</i>"},
		4: {Content: `<span data-m="comp">C4 {{ nofunc(1) }}</span>`, LoadOK: true},
		// 5, 6: differ only in the blanks inside a string literal of a bound attribute
		5: {Content: `<input data-m="comp" :value="'k' + ' = ' + 'v'"><pre>{{ 'C5' + ' - ' + 'x' }}</pre>`, LoadOK: true, RenderOK: true},
		6: {Content: `<input data-m="comp" :value="'k' + '  =  ' + 'v'"><pre>{{ 'C5' + '  -  ' + 'x' }}</pre>`, LoadOK: true, RenderOK: true},
	},
	fMain: {
		0: {Content: `<main data-m="main"><h1>M0 {{ title }}</h1><div v-html="content"></div></main>`, LoadOK: true, RenderOK: true},
		1: {Content: "---\nlayout: base\n---\n" + `<section data-m="main">M1 {{ title }}<div v-html="content"></div></section>`, LoadOK: true, RenderOK: true, Layout: "base"},
		2: {Content: "---\nmainvar: MV2\n---\n" + `<article data-m="main">M2 {{ mainvar }}` + inc + `<div v-html="content"></div></article>`, LoadOK: true, RenderOK: true, Include: true},
		3: {Content: "---\nlayout: {base\n---\n<b>bad3</b>"},
		// 5: a layout (cached by the NewFS engine) with typed front-matter read type-sensitively
		5: {Content: "---\ncols: 2\nwide: true\nlimit: 1000000\n---\n" + `<main data-m="main">M5 {{ cols | type }} {{ cols + 1 }} {{ times3(cols) }} {{ limit }} {{ wide | type }}<div v-html="content"></div></main>`, LoadOK: true, RenderOK: true},
		4: {Content: `<main data-m="main"><aside data-m="slot">M4 <slot name="sidebar"><p>no sidebar</p></slot></aside><div v-html="content"></div></main>`, LoadOK: true, RenderOK: true},
	},
	fRel: {
		0: {Content: `<main data-m="rel"><h2>R0 {{ title }}</h2><div v-html="content"></div></main>`, LoadOK: true, RenderOK: true},
		1: {Content: "---\nrelvar: RV1\n---\n" + `<section data-m="rel">R1 {{ relvar }} {{ title }}<div v-html="content"></div></section>`, LoadOK: true, RenderOK: true},
		2: {Content: "---\nrelvar: [x\n---\n<b>bad2</b>"},
	},
	// a missing, unreadable or garbled import never fails a render (the variable stays unresolved)
	fLess: {
		0: {Content: "@brand: red;\n", LoadOK: true, RenderOK: true},
		1: {Content: "@brand: blue;\n", LoadOK: true, RenderOK: true},
		2: {Content: "@brand: #123456;\n@other: 1px;\n", LoadOK: true, RenderOK: true},
	},
	fBadge: {
		0: {Content: `<b data-m="badge">[{{ label }}]</b>`, LoadOK: true, RenderOK: true},
		1: {Content: "---\nmark: \"*\"\n---\n" + `<strong data-m="badge">{{ mark }}{{ label }}{{ mark }}</strong>`, LoadOK: true, RenderOK: true},
		2: {Content: "---\nmark: [*\n---\n<b>bad2</b>"},
	},
	fBase: {
		0: {Content: `<html><head><title>{{ title }}</title></head><body data-m="base">B0 <div v-html="content"></div></body></html>`, LoadOK: true, RenderOK: true},
		1: {Content: `<html><body data-m="base"><header>B1 {{ title }}</header><div v-html="content"></div></body></html>`, LoadOK: true, RenderOK: true},
		2: {Content: "---\n\ttab: x\n---\n<u>bad2</u>"},
		3: {Content: `<html><body data-m="base">B3 {{ title }}<nav data-m="slot"><slot name="sidebar">no sidebar</slot></nav><div v-html="content"></div></body></html>`, LoadOK: true, RenderOK: true},
	},
}

// validVariants / invalidVariants: indices by file, derived from the table.
func variantsWhere(file string, loadOK bool) []int {
	var out []int
	for i, v := range variants[file] {
		if v.LoadOK == loadOK && !v.Long {
			out = append(out, i)
		}
	}
	return out
}

// Op is one step of a history. "edit", "recreate" and "invalid" all write variant V of File
// with mtime = (last mtime the file ever had) + Dt; the three names only say what the generator
// intended (an edit of an absent file recreates it, and so on). "delete" removes the file.
// "render" renders Target (default page.vuego) through Entry.
type Op struct {
	Op     string `json:"op"`
	File   string `json:"file,omitempty"`
	V      int    `json:"v,omitempty"`
	Dt     int    `json:"dt,omitempty"`
	Entry  string `json:"entry,omitempty"`
	Target string `json:"target,omitempty"`
	Ns     int64  `json:"ns,omitempty"` // additional sub-second part of the mtime delta, in nanoseconds (may be negative)
	Z      bool   `json:"z,omitempty"`  // the write gives the file a ZERO mtime (time.Time{}: "no mtime", like embed.FS); Dt is ignored
	D      int    `json:"d,omitempty"`  // which data the render passes: 0..2 = {title "D<d>", x "X<d>"}, 3 = nil, 4 = empty map
}

// Case is an initial configuration (file -> variant; missing key = file absent; all mtimes t0)
// and a history.
type Case struct {
	Init map[string]int `json:"init"`
	Ops  []Op           `json:"ops"`
	// Proc: the node processor registered on every engine of the case (see proc_test.go);
	// "" = none.
	Proc string `json:"proc,omitempty"`
	// Store: how the files are presented to every engine of the case (see store_test.go):
	// "" = the filesystem itself, "overlay-mixed" = Open-only upper layer over a lower layer
	// (with Stat) that holds older versions of the same files.
	Store string `json:"store,omitempty"`
	// ZeroInit: the initial files report no modification time (zero time).
	ZeroInit bool `json:"zero_init,omitempty"`
	// Comps: the engines are built with component shorthands: vuego.NewFS(fs, WithComponents())
	// and Vue.RegisterComponent("badge", "components/Badge.vuego").
	Comps bool `json:"comps,omitempty"`
	// Ctor: how the LONG-LIVED engines are constructed (see proc_test.go); the engine created for
	// comparison is always built the canonical way.
	Ctor string `json:"ctor,omitempty"`
	// TZ: "" = mtimes in the local zone; "utc" / "east" = written in that zone; "rotate" = in
	// addition every Stat of the long-lived file system reports the (same) instant in another zone
	TZ string `json:"tz,omitempty"`
}

// toTime maps the model's mtime to the filesystem's: 0 is the zero time, not the Unix epoch.
func toTime(mt int64) time.Time {
	if mt == 0 {
		return time.Time{}
	}
	return time.Unix(0, mt)
}

var zoneEast = time.FixedZone("east", 5*3600+1800)

// inZone spells the same instant in the case's zone.
func inZone(t time.Time, tz string) time.Time {
	if t.IsZero() {
		return t
	}
	switch tz {
	case "utc", "rotate":
		return t.UTC()
	case "east":
		return t.In(zoneEast)
	}
	return t
}

// clip shortens long texts in messages (the generated long sources).
func clip(s string) string {
	if len(s) > 1200 {
		return s[:600] + fmt.Sprintf(" …[%d bytes]… ", len(s)-1200) + s[len(s)-600:]
	}
	return s
}

// fmtMt prints a model mtime in seconds.
func fmtMt(mt int64) string {
	if mt%sec == 0 {
		return fmt.Sprint(mt / sec)
	}
	return strings.TrimRight(fmt.Sprintf("%d.%09d", mt/sec, mt%sec), "0")
}

type memfsFS = memfs.FS

func (o Op) isWrite() bool { return o.Op == "edit" || o.Op == "recreate" || o.Op == "invalid" }

// stats is what one execution observed; used for classification only.
type stats struct {
	renders, asserted  int
	skipSame, skipABA  int
	skipZero           int // not compared: a dependency currently reports no mtime and the engine may hold other content of it
	cacheHits          int
	okBoth, errBoth    int
	afterFailed        int // asserted renders that came after a failed render of the long-lived engine
	rer                bool
	entries            map[string]bool
	opKinds            map[string]bool
	modelMismatch      string
	modelMismatchCount int
	overlapped         int // renders that overlapped an armed edit (not compared)
	firedDuring        int // armed edits that fired while the engine was loading the file
	staleRegion        int // asserted renders where a file came back with the mtime of an older state the engine must have dropped
}

// testData builds the caller's data (a new map each time). It varies between renders so that
// anything a render leaves behind in shared state (cached DOM, cached front-matter) would show.
func testData(d int) any {
	switch d {
	case 3:
		return nil
	case 4:
		return map[string]any{}
	}
	m := map[string]any{"title": fmt.Sprintf("D%d", d), "x": fmt.Sprintf("X%d", d)}
	// Structured values whose Go type differs from render to render: two struct types with the
	// same field names in a different order (page variant 16 reads them through expressions
	// with operators).
	switch d {
	case 0:
		m["posts"] = []dPost{{"Hello", "hello", 120}, {"Short", "short", 3}}
		m["lead"] = dPost{"Lead", "lead", 7}
	case 1:
		m["posts"] = []dPage{{50, "about", "About"}, {30, "imprint", "Imprint"}}
		m["lead"] = &dPage{9, "second", "Second"}
	default:
		m["posts"] = []dPage{{11, "x", "Xyz"}}
		m["lead"] = dPost{"Third", "third", 1}
	}
	return m
}

type dPost struct {
	Title string
	Slug  string
	Words int
}

type dPage struct {
	Words int
	Slug  string
	Title string
}

// longSource builds a template source of about kib KiB: head, then a long static list, in
// which exactly one digit of one price is changed per version (same length, another offset
// each time): version 0 is the base, 1 and 2 change two ADJACENT digits in the middle of the
// list, 3 changes the last digit of the last item.
func longSource(head, tail string, kib, version int) string {
	var sb strings.Builder
	sb.WriteString(head)
	sb.WriteString("<ul>")
	n := kib * 1024 / 34
	for i := 0; i < n; i++ {
		price := []byte("1111")
		switch {
		case version == 1 && i == n/2:
			price[0] = '2'
		case version == 2 && i == n/2:
			price[1] = '2'
		case version == 3 && i == n-1:
			price[3] = '2'
		}
		fmt.Fprintf(&sb, "<li>item %04d costs %s EUR</li>\n", i, price)
	}
	sb.WriteString("</ul>")
	sb.WriteString(tail)
	return sb.String()
}

func init() {
	// generated long versions: page 17-20 (5 KiB, no layout), 21-24 (20 KiB, layout main),
	// 25-28 (70 KiB, no layout); layouts/main.vuego 6-9 (6 KiB)
	for _, g := range []struct {
		kib    int
		fm     string
		layout string
	}{{5, "---\ntitle: L5\n---\n", ""}, {20, "---\ntitle: L20\nlayout: main\n---\n", "main"}, {70, "", ""}} {
		for v := 0; v < 4; v++ {
			variants[fPage] = append(variants[fPage], variant{
				Content: longSource(g.fm+`<div data-m="page">PL {{ title }} {{ x }}`, `</div>`, g.kib, v),
				LoadOK:  true, RenderOK: true, Layout: g.layout, Long: true})
		}
	}
	for v := 0; v < 4; v++ {
		variants[fMain] = append(variants[fMain], variant{
			Content: longSource(`<main data-m="main">ML {{ title }}`, `<div v-html="content"></div></main>`, 6, v),
			LoadOK:  true, RenderOK: true, Long: true})
	}
}

// Variants that use the component shorthand <badge>; appended after the generated long ones
// so that saved replays keep their numbering.
var pageBadge, pageBadgeMain, compBadge, mainBadge int

func init() {
	pageBadge = len(variants[fPage])
	variants[fPage] = append(variants[fPage],
		variant{Content: "---\ntitle: TB\n---\n" + `<div data-m="page">PB {{ title }} {{ x }}<badge label="new"></badge>` + inc + `</div>`, LoadOK: true, RenderOK: true, Include: true, Badge: true},
		variant{Content: "---\ntitle: TBM\nlayout: main\n---\n" + `<div data-m="page">PBM {{ title }} {{ x }}<badge :label="title"></badge>` + inc + `</div>`, LoadOK: true, RenderOK: true, Layout: "main", Include: true, Badge: true})
	pageBadgeMain = pageBadge + 1
	compBadge = len(variants[fComp])
	variants[fComp] = append(variants[fComp],
		variant{Content: `<span data-m="comp">CB {{ title }} <badge label="c"></badge></span>`, LoadOK: true, RenderOK: true, Badge: true})
	mainBadge = len(variants[fMain])
	variants[fMain] = append(variants[fMain],
		variant{Content: `<main data-m="main">MB {{ title }} <badge label="lay"></badge><div v-html="content"></div></main>`, LoadOK: true, RenderOK: true, Badge: true})
}

// index of the first generated long variant per file and size
const (
	pageLong5  = 17
	pageLong20 = 21
	pageLong70 = 25
	mainLong6  = 6
)

// enumData: the data variant of the render at position pos of an enumerated history.
var enumData = []int{3, 0, 1, 4}

func doRender(entry, target string, d int, root vuego.Template, vue *vuego.Vue) (string, error) {
	var buf bytes.Buffer
	var err error
	switch entry {
	case eLoadRender:
		err = root.Load(target).Fill(testData(d)).Render(context.Background(), &buf)
	case eRenderFile:
		err = root.RenderFile(context.Background(), &buf, target)
	case eVueRender:
		err = vue.Render(&buf, target, testData(d))
	case eVueFrag:
		err = vue.RenderFragment(&buf, target, testData(d))
	default:
		return "", fmt.Errorf("harness: unknown entry %q", entry)
	}
	return buf.String(), err
}

func describeFiles(fs *memfs.FS, m *model) string {
	var sb strings.Builder
	files := fs.Files()
	names := make([]string, 0, len(files))
	for n := range files {
		names = append(names, n)
	}
	sort.Strings(names)
	for _, n := range names {
		extra := ""
		if m.st[n].blocked {
			extra = ", unreadable: permission error"
		}
		fmt.Fprintf(&sb, "\n    %s (mtime %s%s): %q", n, fmtMt(m.st[n].mt), extra, clip(files[n]))
	}
	if m.store == storeOverlayZeroLower {
		sb.WriteString("\n    (these are the upper layer of an overlay; the fallback layer holds variant 2 of page, component and main layout and reports NO mtime)")
	}
	if m.store == storeOverlayMixed {
		sb.WriteString("\n    (these are the Open-only upper layer of an overlay; the lower layer holds variant 2 of page, component and main layout with mtime 50)")
	}
	return sb.String()
}

// execute runs the history and returns the first violation (nil if none) and statistics.
func execute(c Case) (error, stats) {
	s := stats{entries: map[string]bool{}, opKinds: map[string]bool{}}
	m, err := newModel(c)
	if err != nil {
		return err, s
	}
	if !validProc(c.Proc) {
		return fmt.Errorf("harness: unknown processor %q", c.Proc), s
	}
	fs := memfs.New()
	for f, v := range c.Init {
		fs.Write(f, variants[f][v].Content, inZone(toTime(m.st[f].mt), c.TZ))
	}
	lower := newLower(c.Store)
	hook := &hookFS{m: fs}
	// The long-lived engines.
	long := mount(c.Store, hook, lower)
	if !validCtor(c.Ctor) {
		return fmt.Errorf("harness: unknown constructor spelling %q", c.Ctor), s
	}
	hook.rotateZones = c.TZ == "rotate"
	root := newRoot(long, c.Proc, c.Comps, c.Ctor)
	vue := newVue(long, c.Proc, c.Comps, c.Ctor)
	failedBefore := false

	for i, op := range c.Ops {
		m.step = i
		if op.Op != "render" {
			labels, err := m.apply(i, op)
			if err != nil {
				return err, s
			}
			for _, l := range labels {
				s.opKinds[l] = true
			}
			switch {
			case op.isWrite():
				fs.Write(op.File, variants[op.File][op.V].Content, inZone(toTime(m.st[op.File].mt), c.TZ))
			case op.Op == "delete":
				fs.Remove(op.File)
			case op.Op == "block":
				// a failure that is NOT "file does not exist"
				fs.FailOpen(op.File, iofs.ErrPermission)
			case op.Op == "unblock":
				fs.FailOpen(op.File, nil)
			}
			continue
		}
		target := op.Target
		if target == "" {
			target = fPage
		}
		if m.st[target] == nil {
			return fmt.Errorf("harness: unknown render target %q", target), s
		}
		s.renders++
		s.entries["entry:"+op.Entry] = true
		if op.D == 3 || op.D == 4 {
			s.entries["data:nil-or-empty:"+op.Entry] = true
		}
		if v, ok := m.cur(target); ok && strings.Contains(v.Content, "<template :") {
			s.entries["page-rewrites-front-matter-key"] = true
		}
		ri := m.preRender(op.Entry, target)
		if ri.rer {
			s.rer = true
		}

		// Armed edits of dependencies fire right after the engine opened the file, or, if the
		// engine does not open it during this render, right after the render.
		armed := m.armedDeps(ri.deps)
		pres := map[string]preState{}
		fire := func(f string) {
			pres[f] = m.fire(f)
			fs.Write(f, variants[f][m.st[f].v].Content, inZone(toTime(m.st[f].mt), c.TZ))
		}
		if len(armed) > 0 {
			hook.onOpen = func(name string) {
				for _, f := range armed {
					if _, still := m.armed[f]; still && f == name {
						fire(f)
						s.firedDuring++
					}
				}
			}
		}

		fs.ResetCounters()
		got, gotErr := doRender(op.Entry, target, op.D, root, vue)
		opens := fs.Opens(target)
		hook.onOpen = nil
		longFailed := gotErr != nil

		if len(armed) > 0 {
			for _, f := range armed {
				if _, still := m.armed[f]; still {
					fire(f)
				}
			}
			// This render overlapped an edit: what it shows (old, new or a mix) is not
			// compared. Every later render is.
			m.postRenderOverlapped(op.Entry, target, ri, pres)
			s.overlapped++
			failedBefore = failedBefore || longFailed
			continue
		}

		snap := mount(c.Store, fs.Snapshot(), lower)
		var want string
		var wantErr error
		if viewIndex(op.Entry) == 1 {
			want, wantErr = doRender(op.Entry, target, op.D, nil, newVue(snap, c.Proc, c.Comps, ctorCanonical))
		} else {
			want, wantErr = doRender(op.Entry, target, op.D, newRoot(snap, c.Proc, c.Comps, ctorCanonical), nil)
		}
		modelOK := m.expectOK(op.Entry, target)
		// (a processor that removes text can remove the failing expression: not counted)
		if (wantErr == nil) != modelOK && c.Proc != procRemove && c.Proc != procAll {
			s.modelMismatchCount++
			if s.modelMismatch == "" {
				s.modelMismatch = fmt.Sprintf("step %d %s(%s): fresh engine err=%v but the harness model expected ok=%v", i, op.Entry, target, wantErr, modelOK)
			}
		}
		// "succeeded" for the model only when the fresh engine and the model agree on it
		// (the conservative choice: fewer resets of what the engine may hold, more skips)
		m.postRender(op.Entry, target, ri, wantErr == nil && modelOK)

		if ri.ambiguous != "" {
			switch {
			case ri.viaZero:
				s.skipZero++
			case ri.viaSame:
				s.skipSame++
			default:
				s.skipABA++
			}
			failedBefore = failedBefore || longFailed
			continue
		}
		s.asserted++
		if ri.stale != "" {
			s.staleRegion++
		}
		if failedBefore {
			s.afterFailed++
		}
		failedBefore = failedBefore || longFailed
		where := fmt.Sprintf("step %d: %s(%s)", i, op.Entry, target)
		if (gotErr == nil) != (wantErr == nil) {
			return fmt.Errorf("%s: long-lived engine err=%v, engine created now err=%v\n  long-lived output: %q\n  fresh output: %q\n  files now:%s",
				where, gotErr, wantErr, clip(got), clip(want), describeFiles(fs, m)), s
		}
		if gotErr != nil {
			s.errBoth++
			continue // both fail: texts and partial output are unspecified
		}
		s.okBoth++
		if op.Entry == eVueRender && opens == 0 {
			s.cacheHits++
		}
		if got != want {
			// Both outputs come from the same serialiser, so the statement's "exactly" is taken
			// literally for everything the HTML parser keeps: text is compared character by
			// character (all white space included, everywhere), attribute values exactly; only
			// attribute order and the spelling of the markup itself (quotes, entities) are not
			// looked at. internal/hx (white space collapsed) is used to word the difference.
			d, err := strictDiff(got, want)
			if err != nil {
				return fmt.Errorf("%s: outputs differ and cannot be parsed (%v): %q vs %q", where, err, got, want), s
			}
			if d != "" {
				a, _ := hx.Doc(got, hx.Collapse)
				b, _ := hx.Doc(want, hx.Collapse)
				if hd := hx.Diff(a, b, hx.Options{}); hd != "" {
					d = hd
				} else {
					d += " (white space only)"
				}
				return fmt.Errorf("%s: long-lived engine renders something else than an engine created now: %s\n  long-lived: %q\n  fresh:      %q\n  files now:%s",
					where, d, clip(got), clip(want), describeFiles(fs, m)), s
			}
		}
	}
	return nil, s
}

// --- memoised execution so that classify (needs the run's statistics) and check (needs the
// verdict) share one execution per case. Both are pure functions of the case.

var memo struct {
	key string
	err error
	st  stats
}

func runCase(c Case) (error, stats) {
	b, _ := json.Marshal(c)
	k := string(b)
	if memo.key == k && k != "" {
		return memo.err, memo.st
	}
	var st stats
	err := run.Safe(func() error {
		e, s := execute(c)
		st = s
		return e
	})
	memo.key, memo.err, memo.st = k, err, st
	return err, st
}

func check(c Case) error {
	err, _ := runCase(c)
	return err
}

var rec *ev.Rec

func classify(c Case) (bool, []string) {
	_, s := runCase(c)
	var cls []string
	for k := range s.entries {
		cls = append(cls, k)
	}
	for k := range s.opKinds {
		cls = append(cls, k)
	}
	sort.Strings(cls)
	if s.rer {
		cls = append(cls, "render-modify-render")
	}
	if s.cacheHits > 0 {
		cls = append(cls, "cache-hit-proved")
	}
	if s.skipSame > 0 {
		cls = append(cls, "has-skip:same-mtime-edit")
	}
	if s.skipABA > 0 {
		cls = append(cls, "has-skip:mtime-returned")
	}
	if s.skipZero > 0 {
		cls = append(cls, "has-skip:mtime-unknown(zero)")
	}
	if c.ZeroInit {
		cls = append(cls, "init:no-mtimes")
	}
	if v, ok := c.Init[fPage]; ok && variants[fPage][v].Long {
		cls = append(cls, "long-sources")
	}
	if s.errBoth > 0 {
		cls = append(cls, "has-failing-render")
	}
	if s.afterFailed > 0 {
		cls = append(cls, "asserted-render-after-failed-render")
	}
	if s.staleRegion > 0 {
		cls = append(cls, "asserted:old-mtime-back-after-engine-saw-other-state")
	}
	if c.Comps {
		cls = append(cls, "engine:component-shorthands")
	}
	if c.Ctor != ctorCanonical {
		cls = append(cls, "ctor:"+c.Ctor)
	} else {
		cls = append(cls, "ctor:canonical")
	}
	if c.TZ != "" {
		cls = append(cls, "tz:"+c.TZ)
	}
	if c.Store == "" {
		cls = append(cls, "store:plain")
	} else {
		cls = append(cls, "store:"+c.Store)
	}
	if s.overlapped > 0 {
		cls = append(cls, "has-edit-overlapping-a-load")
	}
	if c.Proc == procNone {
		cls = append(cls, "proc:none")
	} else {
		cls = append(cls, "proc:"+c.Proc)
	}
	if _, ok := c.Init[fBase]; ok {
		cls = append(cls, "init:base-present")
	} else {
		cls = append(cls, "init:base-absent")
	}
	switch n := len(c.Ops); {
	case n <= 3:
		cls = append(cls, "len<=3")
	case n <= 8:
		cls = append(cls, "len4-8")
	default:
		cls = append(cls, "len9-15")
	}
	if rec != nil {
		rec.Count("steps:render", s.renders)
		rec.Count("steps:render-asserted", s.asserted)
		rec.Count("steps:render-ok-both", s.okBoth)
		rec.Count("steps:render-err-both", s.errBoth)
		rec.Count("steps:render-skipped-same-mtime-edit", s.skipSame)
		rec.Count("steps:render-skipped-mtime-returned", s.skipABA)
		rec.Count("steps:render-skipped-mtime-unknown(zero)", s.skipZero)
		rec.Count("steps:render-answered-from-cache", s.cacheHits)
		rec.Count("steps:render-overlapped-by-edit(not compared)", s.overlapped)
		rec.Count("steps:edit-fired-right-after-the-engine-opened-the-file", s.firedDuring)
		rec.Count("steps:asserted-after-failed-render", s.afterFailed)
		rec.Count("steps:asserted-old-mtime-back-after-engine-saw-other-state", s.staleRegion)
		if s.modelMismatchCount > 0 {
			rec.Count("sanity:model-mismatch", s.modelMismatchCount)
			noteOnce(s.modelMismatch)
		}
	}
	return s.rer && s.cacheHits > 0, cls
}

var noted bool

func noteOnce(m string) {
	if !noted && rec != nil {
		noted = true
		rec.Note("harness model disagreed with the fresh engine about success (not a verdict): %s", m)
	}
}

func replay(kind string, raw json.RawMessage) error {
	return run.Decode(raw, func(c Case) error { e, _ := execute(c); return e })
}

// ---------------------------------------------------------------- enumeration

// letter is one element of the reduced alphabet; concrete variants are chosen while the
// history is built (alternating between two contents per file) so that every write changes
// the content.
type letter struct {
	op    string
	file  string
	dt    int
	entry string
	bad   bool
	zero  bool
	ns    int64
}

var alphabet = []letter{
	{op: "render", entry: eVueRender},
	{op: "render", entry: eLoadRender},
	{op: "render", entry: eRenderFile},
	{op: "render", entry: eVueFrag},
	{op: "edit", file: fPage, dt: 1},
	{op: "edit", file: fPage, dt: 0},
	{op: "edit", file: fPage, dt: -1},
	{op: "edit", file: fComp, dt: 1},
	{op: "edit", file: fComp, dt: -1},
	{op: "edit", file: fMain, dt: 1},
	{op: "edit", file: fMain, dt: -1},
	{op: "edit", file: fBase, dt: 1}, // creates layouts/base.vuego when absent
	{op: "delete", file: fPage},
	{op: "delete", file: fComp},
	{op: "delete", file: fMain},
	{op: "delete", file: fBase},
	{op: "invalid", file: fPage, dt: 1, bad: true},
	{op: "invalid", file: fComp, dt: 1, bad: true},
	{op: "invalid", file: fMain, dt: 1, bad: true},
}

// alphabetFS adds the filesystem events: an edit that overlaps the next load of the file, and a
// file that becomes unreadable (with an error other than "not exist") and readable again.
var alphabetFS = append(append([]letter(nil), alphabet...),
	letter{op: "arm", file: fPage, dt: 1},
	letter{op: "arm", file: fMain, dt: 1},
	letter{op: "block", file: fPage},
	letter{op: "unblock", file: fPage},
	letter{op: "block", file: fMain},
	letter{op: "unblock", file: fMain},
	letter{op: "edit", file: fPage, zero: true}, // the page stops reporting an mtime
	// quick re-saves: the new version's mtime differs by less than a second
	letter{op: "edit", file: fPage, ns: 1},
	letter{op: "edit", file: fPage, ns: 300_000_000},
	letter{op: "edit", file: fPage, ns: -50_000_000},
	letter{op: "edit", file: fMain, ns: 999_000_000},
	letter{op: "edit", file: fRel, dt: 1}, // creates the page-relative layout when absent
	letter{op: "delete", file: fRel},
)

// alphabetValues: for enum-values.
var alphabetValues = []letter{
	{op: "render", entry: eVueRender},
	{op: "render", entry: eLoadRender},
	{op: "render", entry: eVueFrag},
	{op: "edit", file: fPage, dt: 1},
	{op: "edit", file: fPage, dt: -1},
	{op: "edit", file: fComp, dt: 1},
	{op: "edit", file: fMain, dt: 1},
}

// alphabetComps: for enum-comps.
var alphabetComps = []letter{
	{op: "render", entry: eVueRender},
	{op: "render", entry: eLoadRender},
	{op: "render", entry: eVueFrag},
	{op: "edit", file: fPage, dt: 1},
	{op: "edit", file: fComp, dt: 1},
	{op: "edit", file: fMain, dt: 1},
	{op: "edit", file: fBadge, dt: 1},
}

// alphabetLong: for enum-long.
var alphabetLong = []letter{
	{op: "render", entry: eVueRender},
	{op: "render", entry: eLoadRender},
	{op: "edit", file: fPage, dt: 1},
	{op: "edit", file: fMain, dt: 1},
}

// alphabetLess: for the LESS engine option.
var alphabetLess = []letter{
	{op: "render", entry: eVueRender},
	{op: "render", entry: eLoadRender},
	{op: "render", entry: eVueFrag},
	{op: "edit", file: fLess, dt: 1},
	{op: "edit", file: fLess, dt: -1},
	{op: "delete", file: fLess},
	{op: "edit", file: fPage, dt: 1},
	{op: "edit", file: fComp, dt: 1},
}

// the two alternating valid contents per file used by the enumeration
var enumPair = map[string][2]int{fPage: {12, 11}, fComp: {1, 0}, fMain: {1, 4}, fBase: {0, 3}, fRel: {0, 1}, fLess: {1, 0}}
var enumBad = map[string]int{fPage: 5, fComp: 3, fMain: 3, fBase: 2}

// engineOpt is one combination of the case-wide options.
type engineOpt struct {
	proc, store string
	zeroInit    bool
	comps       bool
	ctor, tz    string
	pairs       map[string][]int // overrides enumPair: the cycle of contents a file goes through
}

// nextOf picks the member of the file's alternating pair that differs from what it holds now.
func nextOf(file string, curV map[string]int, pairs map[string][]int) int {
	p, ok := pairs[file]
	if !ok {
		q := enumPair[file]
		p = q[:]
	}
	if v, ok := curV[file]; ok {
		for i, x := range p {
			if x == v {
				return p[(i+1)%len(p)]
			}
		}
	}
	return p[0]
}

func buildHistory(alpha []letter, init map[string]int, word []int, o engineOpt) Case {
	c := Case{Init: init, Proc: o.proc, Store: o.store, ZeroInit: o.zeroInit, Comps: o.comps, Ctor: o.ctor, TZ: o.tz}
	curV := map[string]int{} // the content variant each file got last (so that every write changes it)
	exists := map[string]bool{}
	for f, v := range init {
		exists[f] = true
		curV[f] = v
	}
	for _, li := range word {
		l := alpha[li]
		switch l.op {
		case "block", "unblock":
			c.Ops = append(c.Ops, Op{Op: l.op, File: l.file})
		case "arm":
			v := nextOf(l.file, curV, o.pairs)
			curV[l.file] = v
			c.Ops = append(c.Ops, Op{Op: "arm", File: l.file, V: v, Dt: l.dt, Ns: l.ns})
		case "render":
			c.Ops = append(c.Ops, Op{Op: "render", Entry: l.entry, D: enumData[len(c.Ops)%len(enumData)]})
		case "delete":
			exists[l.file] = false
			c.Ops = append(c.Ops, Op{Op: "delete", File: l.file})
		default:
			v := enumBad[l.file]
			name := l.op
			if !l.bad {
				v = nextOf(l.file, curV, o.pairs)
				curV[l.file] = v
				if !exists[l.file] {
					name = "recreate"
				}
			}
			exists[l.file] = true
			c.Ops = append(c.Ops, Op{Op: name, File: l.file, V: v, Dt: l.dt, Ns: l.ns, Z: l.zero})
		}
	}
	return c
}

// the two standard initial configurations
var stdInits = []map[string]int{
	{fPage: 11, fComp: 0, fMain: 4},           // A: page names layout main (which fills the page's named slot), no default layout
	{fPage: 12, fComp: 0, fMain: 1, fBase: 3}, // B: page without layout, default layout present (fills the slot), main chains to base
}

// enumerate runs every history over alpha of length <= maxLen[i] from initial configuration
// inits[i], for each of the given option combinations.
func enumerate(t *testing.T, kind string, alpha []letter, inits []map[string]int, maxLen []int, opts []engineOpt) {
	shard, shards := run.Shard()
	n := 0
	complete := true
	top := 0
	for _, l := range maxLen {
		if l > top {
			top = l
		}
	}
	var word []int
	var rec2 func() bool
	rec2 = func() bool {
		if len(word) > 0 && alpha[word[len(word)-1]].op == "render" {
			// a history that does not end in a render is covered by its longest prefix that does
			for ii, init := range inits {
				if len(word) > maxLen[ii] {
					continue
				}
				for _, o := range opts {
					n++
					if n%shards != shard {
						continue
					}
					c := buildHistory(alpha, init, word, o)
					if _, ids := sanitize(c, avoid); len(ids) > 0 {
						rec.Excluded(ids[0])
						continue
					}
					nt, cls := classify(c)
					if !run.Each(rec, kind, c, nt, append(cls, kind), check) {
						return false
					}
				}
			}
		}
		if len(word) == top {
			return true
		}
		for i := range alpha {
			word = append(word, i)
			ok := rec2()
			word = word[:len(word)-1]
			if !ok {
				return false
			}
		}
		return true
	}
	complete = rec2()
	if complete {
		rec.Exhaustive(fmt.Sprintf("%s: options %+v: all histories over the %d-letter alphabet that end in a render, length <= %v from the %d initial configurations (%d histories)", kind, opts, len(alpha), maxLen, len(inits), n))
	}
}

// ---------------------------------------------------------------- random histories

func genCase(t *rapid.T) Case {
	c := Case{Init: map[string]int{}}
	if rapid.Bool().Draw(t, "with-processor") {
		c.Proc = rapid.SampledFrom(allProcs[1:]).Draw(t, "processor")
	}
	c.Ctor = rapid.SampledFrom([]string{ctorCanonical, ctorCanonical, ctorWithFSFirst, ctorWithFSMid}).Draw(t, "constructor")
	c.TZ = rapid.SampledFrom([]string{"", "", "utc", "east", "rotate"}).Draw(t, "tz")
	switch rapid.IntRange(0, 7).Draw(t, "store") {
	case 0, 1:
		c.Store = storeOverlayMixed
	case 2:
		c.Store = storeOverlayZeroLower
	}
	if c.Store == "" && rapid.IntRange(0, 3).Draw(t, "shorthands") == 0 {
		c.Comps = true
	}
	if rapid.IntRange(0, 7).Draw(t, "no-mtimes-at-start") == 0 {
		c.ZeroInit = true
	}
	blocked := map[string]bool{}
	cur := map[string]int{fPage: -1, fComp: -1, fMain: -1, fBase: -1, fRel: -1, fLess: -1} // -1 = absent
	pick := func(label string, xs []int) int { return rapid.SampledFrom(xs).Draw(t, label) }
	c.Init[fPage] = pick("init-page", []int{11, 16, 13, 1, 14, 12, 8, 0, 15, 9, 2, 3, 4, 7})
	c.Init[fComp] = pick("init-comp", []int{0, 5, 1, 2, 6})
	c.Init[fMain] = pick("init-main", []int{4, 5, 0, 1, 2})
	if rapid.Bool().Draw(t, "init-base") {
		c.Init[fBase] = pick("init-base-v", []int{3, 0, 1})
	}
	if rapid.IntRange(0, 5).Draw(t, "init-rel") == 0 {
		c.Init[fRel] = pick("init-rel-v", []int{0, 1})
	}
	if c.Proc == procLess {
		// the LESS option is only interesting with the page that has a LESS block
		if rapid.IntRange(0, 3).Draw(t, "less-page") > 0 {
			c.Init[fPage] = 10
		}
		if rapid.IntRange(0, 4).Draw(t, "init-less") > 0 {
			c.Init[fLess] = pick("init-less-v", []int{0, 1, 2})
		}
	}
	if c.Comps {
		c.Init[fBadge] = pick("init-badge", []int{0, 1})
		if rapid.Bool().Draw(t, "badge-page") {
			c.Init[fPage] = pick("init-badge-page", []int{pageBadge, pageBadgeMain})
		}
	}
	// one case in forty works on the generated long sources (5 / 20 / 70 KiB page, 6 KiB layout)
	longFirst := -1
	if c.Proc != procLess && rapid.IntRange(0, 39).Draw(t, "long-sources") == 0 {
		longFirst = rapid.SampledFrom([]int{pageLong5, pageLong5, pageLong20, pageLong70}).Draw(t, "long-size")
		c.Init[fPage] = longFirst + rapid.IntRange(0, 3).Draw(t, "long-v")
		c.Init[fMain] = mainLong6 + rapid.IntRange(0, 3).Draw(t, "long-main-v")
	}
	for f, v := range c.Init {
		cur[f] = v
	}
	n := rapid.IntRange(5, 15).Draw(t, "len")
	if longFirst >= 0 {
		n = rapid.IntRange(4, 8).Draw(t, "len-long")
	}
	// weighted choices (SampledFrom is uniform over the slice)
	kinds := []string{"render", "render", "render", "render", "render", "render", "render-twice", "render-twice", "render-twice",
		"edit", "edit", "edit", "edit", "edit", "edit", "edit", "edit", "edit", "invalid", "invalid", "delete", "delete",
		"arm", "arm", "block", "unblock"}
	fileW := []string{fPage, fPage, fPage, fPage, fComp, fComp, fMain, fMain, fBase, fRel}
	if c.Proc == procLess {
		fileW = []string{fPage, fPage, fComp, fMain, fLess, fLess, fLess, fLess, fLess}
	}
	if c.Comps {
		fileW = append(fileW, fBadge)
	}
	// with shorthands registered, half of the edits of page / component / layout switch to or
	// away from a version that uses <badge>
	badgeV := map[string][]int{fPage: {pageBadge, pageBadgeMain}, fComp: {compBadge}, fMain: {mainBadge}}
	// one write in eight leaves the file without an mtime (zero time)
	zero := func() bool { return rapid.IntRange(0, 7).Draw(t, "no-mtime") == 0 }
	dts := []int{1, 1, 1, 2, 0, 0, -1, -1, -2}
	// the sub-second part of a write's mtime delta: mostly none, else +1 ns, +1 ms, +300 ms,
	// +999 ms, -50 ms (with a whole-second part of 0 this is a quick re-save)
	nss := []int64{0, 0, 0, 0, 0, 1, 1_000_000, 300_000_000, 999_000_000, -50_000_000}
	subsec := func() int64 { return rapid.SampledFrom(nss).Draw(t, "ns") }
	entriesW := []string{eVueRender, eVueRender, eVueRender, eVueRender, eLoadRender, eLoadRender, eRenderFile, eVueFrag}
	broken := func() []string {
		var out []string
		for _, f := range []string{fPage, fComp, fMain} { // base may legitimately be absent
			if blocked[f] || cur[f] < 0 || !variants[f][cur[f]].LoadOK || !variants[f][cur[f]].RenderOK {
				out = append(out, f)
			}
		}
		return out
	}
	warm := rapid.IntRange(0, 2).Draw(t, "warm-up") > 0
	for i := 0; i < n; i++ {
		k := rapid.SampledFrom(kinds).Draw(t, "kind")
		if i == 0 && warm {
			k = "render-twice" // two thirds of the histories start by filling and then hitting a cache
		}
		if i == n-1 {
			k = "render" // a history ends with a render
		}
		switch k {
		case "render", "render-twice":
			op := Op{Op: "render", Entry: rapid.SampledFrom(entriesW).Draw(t, "entry"), D: rapid.IntRange(0, 4).Draw(t, "data")}
			if i == 0 && warm && op.Entry == eVueFrag {
				op.Entry = eVueRender
			}
			if (op.Entry == eVueRender || op.Entry == eVueFrag) && rapid.IntRange(0, 11).Draw(t, "tgt") == 0 {
				op.Target = fComp
			}
			c.Ops = append(c.Ops, op)
			if k == "render-twice" && i < n-1 { // the same render again: the second may be answered from the cache
				if rapid.Bool().Draw(t, "other-data") {
					op.D = (op.D + 1) % 5
				}
				c.Ops = append(c.Ops, op)
				i++
			}
		case "edit":
			f := rapid.SampledFrom(fileW).Draw(t, "file")
			// a broken (absent / invalid / failing) file is repaired with probability 3/4, so that
			// histories do not spend most of their renders on "both engines fail"
			if b := broken(); len(b) > 0 && rapid.IntRange(0, 3).Draw(t, "repair") > 0 {
				f = rapid.SampledFrom(b).Draw(t, "broken")
			}
			if blocked[f] { // repairing an unreadable file = making it readable again
				blocked[f] = false
				c.Ops = append(c.Ops, Op{Op: "unblock", File: f})
				continue
			}
			name := "edit"
			if cur[f] < 0 {
				name = "recreate"
			}
			good := variantsWhere(f, true)
			if longFirst >= 0 && f == fPage {
				good = []int{longFirst, longFirst + 1, longFirst + 2, longFirst + 3}
			}
			if longFirst >= 0 && f == fMain {
				good = []int{mainLong6, mainLong6 + 1, mainLong6 + 2, mainLong6 + 3}
			}
			if bv, ok := badgeV[f]; ok && c.Comps && longFirst < 0 && rapid.Bool().Draw(t, "to-badge") {
				good = bv
				if indexOfOrNeg(bv, cur[f]) >= 0 {
					good = variantsWhere(f, true)
				}
			}
			v := pick("v", good)
			if !variants[f][v].RenderOK && rapid.Bool().Draw(t, "redraw") {
				v = good[0] // contents whose evaluation fails are kept rarer
			}
			if v == cur[f] { // make it a real change by construction
				v = good[(indexOf(good, v)+1)%len(good)]
			}
			cur[f] = v
			c.Ops = append(c.Ops, Op{Op: name, File: f, V: v, Dt: rapid.SampledFrom(dts).Draw(t, "dt"), Ns: subsec(), Z: zero()})
		case "arm":
			// an edit that is applied right after the engine has been handed the file's content
			// during the next render that depends on the file
			f := rapid.SampledFrom(fileW).Draw(t, "file")
			v := pick("v", variantsWhere(f, true))
			c.Ops = append(c.Ops, Op{Op: "arm", File: f, V: v, Dt: rapid.SampledFrom([]int{1, 1, 2, 0, -1}).Draw(t, "dt"), Ns: subsec(), Z: zero()})
		case "block":
			f := rapid.SampledFrom(fileW).Draw(t, "file")
			if f == fBadge {
				f = fPage // the shorthand's component file is only edited (see fBadge)
			}
			blocked[f] = true
			c.Ops = append(c.Ops, Op{Op: "block", File: f})
		case "unblock":
			f := rapid.SampledFrom(fileW).Draw(t, "file")
			for _, g := range allFiles {
				if blocked[g] {
					f = g
				}
			}
			blocked[f] = false
			c.Ops = append(c.Ops, Op{Op: "unblock", File: f})
		case "invalid":
			f := rapid.SampledFrom(fileW).Draw(t, "file")
			if len(variantsWhere(f, false)) == 0 {
				f = fPage // (an import has no invalid form: garbage just leaves the variable unresolved)
			}
			v := pick("v", variantsWhere(f, false))
			cur[f] = v
			c.Ops = append(c.Ops, Op{Op: "invalid", File: f, V: v, Dt: rapid.SampledFrom(dts).Draw(t, "dt"), Ns: subsec(), Z: zero()})
		default:
			f := rapid.SampledFrom(fileW).Draw(t, "file")
			if f == fBadge {
				f = fPage // the shorthand's component file is only edited (see fBadge)
			}
			cur[f] = -1
			c.Ops = append(c.Ops, Op{Op: "delete", File: f})
		}
	}
	// stay out of the regions of open known findings by construction: the offending write gets
	// a brand-new mtime, the rest of the history is kept
	c2, ids := sanitize(c, avoid)
	for _, id := range ids {
		rec.Excluded(id)
	}
	return c2
}

func indexOfOrNeg(xs []int, x int) int {
	for i, y := range xs {
		if y == x {
			return i
		}
	}
	return -1
}

func indexOf(xs []int, x int) int {
	for i, y := range xs {
		if y == x {
			return i
		}
	}
	return 0
}

// avoid: the open known findings whose regions the generators stay out of.
var avoid = map[string]bool{}

func TestProp(t *testing.T) {
	rec = ev.New(prop)
	for _, id := range []string{findingUncached, findingBase} {
		if kf.Load().Open(id) {
			avoid[id] = true
		}
	}
	defer run.Finish(t, rec)
	run.Witnesses(rec, prop, replay)

	enumerate(t, "enum", alphabet, stdInits, run.Pick([]int{3, 3}, []int{5, 5}), []engineOpt{{}})
	// the same with a registered node processor that edits its nodes in place
	var procOpts []engineOpt
	for _, p := range []string{procAttrPrefix, procAttrAppend, procText, procRemove, procAll} {
		procOpts = append(procOpts, engineOpt{proc: p})
	}
	enumerate(t, "enum-proc", alphabet, stdInits, run.Pick([]int{3, 2}, []int{4, 3}), procOpts)
	// with filesystem events (edit overlapping a load, file unreadable / readable again, file
	// without mtime, page-relative layout appearing / disappearing), on the plain filesystem,
	// on the mixed-capability overlay, and starting from files that report no mtime
	enumerate(t, "enum-fs", alphabetFS, stdInits, run.Pick([]int{3, 2}, []int{4, 3}),
		[]engineOpt{{}, {store: storeOverlayMixed}, {zeroInit: true}, {store: storeOverlayZeroLower}})
	// constructor spellings of the long-lived engines, against the canonically built fresh engine
	enumerate(t, "enum-ctor", alphabet, stdInits, run.Pick([]int{3, 3}, []int{4, 4}),
		[]engineOpt{{ctor: ctorWithFSFirst, tz: "utc"}, {ctor: ctorWithFSMid, tz: "rotate"}})
	// engines with component shorthands: edits add and remove <badge> in page, layout and
	// component, and edit the shorthand's component file
	enumerate(t, "enum-comps", alphabetComps, []map[string]int{{fPage: 1, fComp: 0, fMain: 0, fBadge: 0}}, run.Pick([]int{3}, []int{5}),
		[]engineOpt{{comps: true, pairs: map[string][]int{fPage: {pageBadgeMain, 1, pageBadge}, fComp: {compBadge, 0}, fMain: {mainBadge, 0}, fBadge: {1, 0}}}})
	// values: typed front-matter read type-sensitively (page 13, layout 5), and versions of page
	// and component that differ only in blanks inside string literals (14/15, 5/6)
	enumerate(t, "enum-values", alphabetValues, []map[string]int{{fPage: 13, fComp: 5, fMain: 5}, {fPage: 14, fComp: 5, fMain: 0}},
		run.Pick([]int{3, 4}, []int{5, 5}),
		[]engineOpt{{pairs: map[string][]int{fPage: {15, 14}, fComp: {6, 5}, fMain: {5, 0}}}})
	// data shapes: the caller's data changes its Go types from render to render (page 16)
	enumerate(t, "enum-data", alphabetValues, []map[string]int{{fPage: 16, fComp: 0, fMain: 0}}, run.Pick([]int{3}, []int{5}),
		[]engineOpt{{pairs: map[string][]int{fPage: {13, 16}}}})
	// sizes: sources of 5, 20 and 70 KiB (and a 6 KiB layout) whose versions have the same length
	// and differ in one digit, at another offset each
	for _, first := range []int{pageLong5, pageLong20, pageLong70} {
		enumerate(t, "enum-long", alphabetLong, []map[string]int{{fPage: first, fComp: 0, fMain: mainLong6}}, run.Pick([]int{3}, []int{4}),
			[]engineOpt{{pairs: map[string][]int{fPage: {first + 1, first + 2, first + 3, first}, fMain: {mainLong6 + 1, mainLong6 + 2, mainLong6 + 3, mainLong6}}}})
	}
	// vuego's LESS processor with a style block importing vars.less
	enumerate(t, "enum-less", alphabetLess, []map[string]int{{fPage: 10, fComp: 0, fMain: 0, fLess: 0}}, run.Pick([]int{4}, []int{5}),
		[]engineOpt{{proc: procLess}})
	run.Rapid(t, rec, "history", genCase, classify, check)
}

func TestReplay(t *testing.T) { run.ReplayMain(t, prop, replay) }
