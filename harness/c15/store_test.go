package c15

// Filesystem dimensions: how the files are presented to the engines (Case.Store), and a hook
// that lets a scripted edit overlap a load (Op "arm").

import (
	iofs "io/fs"
	"time"

	"github.com/titpetric/vuego"

	"verif/internal/memfs"
)

// hookFS is the long-lived engines' view of the edited memfs. Right after a file was opened
// successfully (its content is handed out: memfs snapshots the bytes at Open) onOpen is called;
// execute uses it to apply an armed edit "while the engine is loading the file".
type hookFS struct {
	m      *memfs.FS
	onOpen func(name string)
	// rotateZones: every Stat (and the Stat of every opened file) reports the file's mtime as
	// the same instant spelled in another time zone than the time before
	rotateZones bool
	calls       int
}

var zones = []*time.Location{time.UTC, time.FixedZone("east", 5*3600+1800), time.FixedZone("west", -8*3600), time.Local}

type zonedInfo struct {
	iofs.FileInfo
	loc *time.Location
}

func (z zonedInfo) ModTime() time.Time {
	t := z.FileInfo.ModTime()
	if t.IsZero() {
		return t
	}
	return t.In(z.loc)
}

type zonedFile struct {
	iofs.File
	loc *time.Location
}

func (z zonedFile) Stat() (iofs.FileInfo, error) {
	fi, err := z.File.Stat()
	if err != nil {
		return fi, err
	}
	return zonedInfo{fi, z.loc}, nil
}

func (h *hookFS) nextZone() *time.Location {
	h.calls++
	return zones[h.calls%len(zones)]
}

func (h *hookFS) Open(name string) (iofs.File, error) {
	f, err := h.m.Open(name)
	if err == nil && h.onOpen != nil {
		h.onOpen(name)
	}
	if err == nil && h.rotateZones {
		if _, isDir := f.(iofs.ReadDirFile); !isDir {
			return zonedFile{f, h.nextZone()}, nil
		}
	}
	return f, err
}

func (h *hookFS) Stat(name string) (iofs.FileInfo, error) {
	fi, err := h.m.Stat(name)
	if err == nil && h.rotateZones {
		return zonedInfo{fi, h.nextZone()}, nil
	}
	return fi, err
}
func (h *hookFS) ReadDir(name string) ([]iofs.DirEntry, error) { return h.m.ReadDir(name) }

// openOnly hides every optional interface (Stat, ReadDir ...) of a filesystem.
type openOnly struct{ f iofs.FS }

func (o openOnly) Open(name string) (iofs.File, error) { return o.f.Open(name) }

// newLower builds the static lower layer of storeOverlayMixed.
func newLower(store string) *memfs.FS {
	l := memfs.New()
	for f, v := range lowerLayer {
		l.Write(f, variants[f][v].Content, toTime(lowerMtOf(store)))
	}
	return l
}

// mount presents base the way the store says: as it is, or as the Open-only upper layer of an
// overlay whose lower layer (a plain memfs with Stat) holds older versions of the same files.
func mount(store string, base iofs.FS, lower *memfs.FS) iofs.FS {
	switch store {
	case storeOverlayMixed:
		return vuego.NewOverlayFS(openOnly{base}, lower)
	case storeOverlayZeroLower:
		return vuego.NewOverlayFS(base, lower)
	}
	return base
}
