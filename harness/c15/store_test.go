package c15

// Filesystem dimensions: how the files are presented to the engines (Case.Store), and a hook
// that lets a scripted edit overlap a load (Op "arm").

import (
	iofs "io/fs"

	"github.com/titpetric/vuego"

	"verif/internal/memfs"
)

// hookFS is the long-lived engines' view of the edited memfs. Right after a file was opened
// successfully (its content is handed out: memfs snapshots the bytes at Open) onOpen is called;
// execute uses it to apply an armed edit "while the engine is loading the file".
type hookFS struct {
	m      *memfs.FS
	onOpen func(name string)
}

func (h *hookFS) Open(name string) (iofs.File, error) {
	f, err := h.m.Open(name)
	if err == nil && h.onOpen != nil {
		h.onOpen(name)
	}
	return f, err
}
func (h *hookFS) Stat(name string) (iofs.FileInfo, error)      { return h.m.Stat(name) }
func (h *hookFS) ReadDir(name string) ([]iofs.DirEntry, error) { return h.m.ReadDir(name) }

// openOnly hides every optional interface (Stat, ReadDir ...) of a filesystem.
type openOnly struct{ f iofs.FS }

func (o openOnly) Open(name string) (iofs.File, error) { return o.f.Open(name) }

// newLower builds the static lower layer of storeOverlayMixed.
func newLower(store string) *memfs.FS {
	l := memfs.New()
	for f, v := range lowerLayer {
		l.Write(f, variants[f][v].Content, toTime(lowerMtOf(store)))
	}
	return l
}

// mount presents base the way the store says: as it is, or as the Open-only upper layer of an
// overlay whose lower layer (a plain memfs with Stat) holds older versions of the same files.
func mount(store string, base iofs.FS, lower *memfs.FS) iofs.FS {
	switch store {
	case storeOverlayMixed:
		return vuego.NewOverlayFS(openOnly{base}, lower)
	case storeOverlayZeroLower:
		return vuego.NewOverlayFS(base, lower)
	}
	return base
}
