package c15

// strictDiff compares two outputs as parsed HTML trees without normalising anything the parser
// keeps: element names, attribute sets with exact values, text and comment data character by
// character. It returns "" when they are the same, else where they first differ.

import (
	"fmt"
	"sort"
	"strings"

	"golang.org/x/net/html"
)

func strictDiff(a, b string) (string, error) {
	x, err := html.Parse(strings.NewReader(a))
	if err != nil {
		return "", err
	}
	y, err := html.Parse(strings.NewReader(b))
	if err != nil {
		return "", err
	}
	return strictNode(x, y, ""), nil
}

func strictNode(x, y *html.Node, path string) string {
	if x.Type != y.Type || x.Data != y.Data {
		return fmt.Sprintf("%s: %q vs %q", path, x.Data, y.Data)
	}
	if x.Type == html.ElementNode {
		path += "/" + x.Data
		ax, ay := map[string]string{}, map[string]string{}
		for _, a := range x.Attr {
			ax[a.Key] = a.Val
		}
		for _, a := range y.Attr {
			ay[a.Key] = a.Val
		}
		keys := map[string]bool{}
		for k := range ax {
			keys[k] = true
		}
		for k := range ay {
			keys[k] = true
		}
		sorted := make([]string, 0, len(keys))
		for k := range keys {
			sorted = append(sorted, k)
		}
		sort.Strings(sorted)
		for _, k := range sorted {
			vx, okx := ax[k]
			vy, oky := ay[k]
			if okx != oky || vx != vy {
				return fmt.Sprintf("%s: attribute %q: %q (present %v) vs %q (present %v)", path, k, vx, okx, vy, oky)
			}
		}
		if len(x.Attr) != len(y.Attr) {
			return fmt.Sprintf("%s: %d vs %d attributes", path, len(x.Attr), len(y.Attr))
		}
	}
	cx, cy := x.FirstChild, y.FirstChild
	for i := 0; cx != nil || cy != nil; i++ {
		if cx == nil || cy == nil {
			return fmt.Sprintf("%s: different number of children", path)
		}
		if d := strictNode(cx, cy, fmt.Sprintf("%s[%d]", path, i)); d != "" {
			return d
		}
		cx, cy = cx.NextSibling, cy.NextSibling
	}
	return ""
}
