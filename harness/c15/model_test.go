package c15

// The harness model: a pure (vuego-free) account of the files, of which files a render has to
// consult, and of what a long-lived engine with an mtime-validated cache may legitimately still
// remember. It decides which renders are compared and which fall under the statement's
// "equal-mtime edits excluded" clause. It never produces an expected output.

import (
	"fmt"
	"sort"
)

type fstate struct {
	exists   bool
	v        int
	mt       int64
	realMt   int64 // the last real (non-zero) mtime the file had: deltas of writes are relative to it
	maxMt    int64 // highest mtime the file ever had
	blocked  bool  // opening / stat'ing the file fails with a permission error (memfs.FailOpen)
	lastDt0  bool  // the most recent write kept the mtime and changed the content
	touched  bool  // written/deleted since a render that depended on it
	rendered bool  // some earlier render depended on it
}

// held is one (mtime, content) state of a file.
type held struct {
	mt int64
	v  int
}

// view is what one long-lived engine may know about the files.
//
//	may[f]:  the states of f the engine may legitimately still hold in a cache. After a render
//	         that must have consulted f and was not fooled by an equal mtime, this is exactly the
//	         state seen (nothing, if f was missing or failed to load: the statement's "a failed
//	         load or render never leaves a stale or partial entry behind").
//	ever[f]: every loadable state of f the engine may ever have seen.
//	cache[f]: only used to delimit known finding C15-stale-entry-after-uncached-read: the state
//	         that vuego's Vue.Render cache holds for f when only Vue.Render(f) refreshes it
//	         (RenderFragment and <template include> read f without telling the cache).
type view struct {
	may   map[string]map[held]bool
	ever  map[string]map[held]bool
	cache map[string]map[held]bool
}

func newView() *view {
	w := &view{may: map[string]map[held]bool{}, ever: map[string]map[held]bool{}, cache: map[string]map[held]bool{}}
	for _, f := range allFiles {
		w.may[f] = map[held]bool{}
		w.ever[f] = map[held]bool{}
		w.cache[f] = map[held]bool{}
	}
	return w
}

func conflicts(set map[held]bool, mt int64, v int) bool {
	for h := range set {
		// (a zero mtime is a value like any other since /repo 92b9b9b: an entry is served only
		// when its time equals the file's current time)
		if h.mt == mt && h.v != v {
			return true
		}
	}
	return false
}

type model struct {
	st    map[string]*fstate
	views [2]*view // 0: the NewFS root template's engine, 1: the stand-alone Vue

	store string               // "" or storeOverlayMixed
	proc  string               // the engine option (procLess makes vars.less a dependency)
	comps bool                 // component shorthands registered (<badge> = include of components/Badge.vuego)
	armed map[string]armedEdit // file -> edit that fires while (or right after) the next render depending on the file runs

	step      int              // index of the op being applied (set by the caller)
	lastWrite map[string]int   // file -> index of the op that last wrote it (-1: initial content)
	freshDt   map[string]int64 // file -> the delta (ns) that would have given that write a brand-new mtime
}

func viewIndex(entry string) int {
	if entry == eVueRender || entry == eVueFrag {
		return 1
	}
	return 0
}

// armedEdit is a scripted edit that overlaps a load (see Op "arm").
type armedEdit struct {
	v, dt, idx int
	ns         int64
	zero       bool
}

const storeOverlayMixed = "overlay-mixed"

// storeOverlayZeroLower: vuego.NewOverlayFS(upper, lower) where upper is the edited filesystem
// (full capability, real mtimes) and lower is a fallback layer whose files report NO mtime (like
// embed.FS or fstest.MapFS): removing the upper file falls back to the lower version.
const storeOverlayZeroLower = "overlay-zero-lower"

func validStore(s string) bool {
	return s == "" || s == storeOverlayMixed || s == storeOverlayZeroLower
}

// lowerMtOf is the mtime the lower layer's files report.
func lowerMtOf(store string) int64 {
	if store == storeOverlayZeroLower {
		return 0
	}
	return lowerMt
}

// lowerLayer: with storeOverlayMixed the engines see vuego.NewOverlayFS(upper, lower) where
// upper is the edited filesystem exposed through Open ONLY and lower is a plain filesystem
// (with Stat) holding these older versions of the same files, all with mtime lowerMt. A file
// that is deleted or unreadable in the upper layer shows its lower version.
var lowerLayer = map[string]int{fPage: 2, fComp: 2, fMain: 2}

const lowerMt = 50 * sec

// eff is the state of f as the engines see it.
func (m *model) eff(f string) (exists bool, v int, mt int64) {
	s := m.st[f]
	if s == nil {
		return false, 0, 0
	}
	if s.exists && !s.blocked {
		return true, s.v, s.mt
	}
	if m.store != "" {
		if lv, ok := lowerLayer[f]; ok {
			return true, lv, lowerMtOf(m.store)
		}
	}
	return false, 0, 0
}

func newModel(c Case) (*model, error) {
	init := c.Init
	if !validStore(c.Store) {
		return nil, fmt.Errorf("harness: unknown store %q", c.Store)
	}
	m := &model{st: map[string]*fstate{}, views: [2]*view{newView(), newView()}, lastWrite: map[string]int{}, freshDt: map[string]int64{},
		store: c.Store, proc: c.Proc, comps: c.Comps, armed: map[string]armedEdit{}}
	for _, f := range allFiles {
		m.st[f] = &fstate{mt: t0, realMt: t0, maxMt: t0}
		if c.ZeroInit {
			m.st[f].mt = 0
		}
		m.lastWrite[f] = -1
	}
	names := make([]string, 0, len(init))
	for f := range init {
		names = append(names, f)
	}
	sort.Strings(names)
	for _, f := range names {
		if _, err := getVariant(f, init[f]); err != nil {
			return nil, err
		}
		m.st[f].exists, m.st[f].v = true, init[f]
	}
	return m, nil
}

func getVariant(file string, v int) (variant, error) {
	vs, ok := variants[file]
	if !ok {
		return variant{}, fmt.Errorf("harness: unknown file %q", file)
	}
	if v < 0 || v >= len(vs) {
		return variant{}, fmt.Errorf("harness: file %q has no variant %d", file, v)
	}
	return vs[v], nil
}

// newMtime is the mtime (ns) a write with delta dt seconds + ns nanoseconds gives the file.
func (m *model) newMtime(file string, dt int, ns int64) int64 {
	mt := m.st[file].realMt + int64(dt)*sec + ns
	if mt < 1 {
		mt = 1 // a zero mtime ("unknown") is only produced on purpose, by Op.Z
	}
	return mt
}

// write applies a write op and returns labels describing it.
func (m *model) write(file string, v, dt int, ns int64, zero bool) (kind, mtClass string) {
	f := m.st[file]
	vr := variants[file][v]
	mt := m.newMtime(file, dt, ns)
	if zero {
		mt = 0
	}
	kind = "edit"
	if !f.exists {
		kind = "recreate"
	}
	if !vr.LoadOK {
		kind = "make-invalid"
	}
	switch {
	case mt == 0 && f.mt == 0:
		mtClass = "mtime:zero-to-zero"
	case mt == 0:
		mtClass = "mtime:real-to-zero"
	case f.mt == 0:
		mtClass = "mtime:zero-to-real"
	case mt != f.mt && mt/sec == f.mt/sec:
		mtClass = "mtime:changed-within-the-same-second"
	case mt > f.mt:
		mtClass = "mtime:advance"
	case mt == f.mt:
		mtClass = "mtime:same"
	default:
		mtClass = "mtime:backwards"
	}
	m.lastWrite[file] = m.step
	m.freshDt[file] = (f.maxMt/sec+1)*sec - f.realMt // the next whole second nothing has used yet
	changed := !f.exists || f.v != v
	f.lastDt0 = mt == f.mt && changed
	f.exists, f.v, f.mt = true, v, mt
	if mt != 0 {
		f.realMt = mt
	}
	if mt > f.maxMt {
		f.maxMt = mt
	}
	if f.rendered {
		f.touched = true
	}
	return kind, mtClass
}

func (m *model) remove(file string) {
	f := m.st[file]
	if f.exists && f.rendered {
		f.touched = true
	}
	f.exists, f.lastDt0 = false, false
}

func (m *model) cur(f string) (variant, bool) {
	ex, v, _ := m.eff(f)
	if !ex {
		return variant{}, false
	}
	return variants[f][v], true
}

// apply performs a non-render op on the model and returns labels for the histogram.
func (m *model) apply(i int, op Op) ([]string, error) {
	m.step = i
	if m.st[op.File] == nil {
		return nil, fmt.Errorf("harness: unknown file %q", op.File)
	}
	switch {
	case op.isWrite():
		if _, err := getVariant(op.File, op.V); err != nil {
			return nil, err
		}
		kind, mtClass := m.write(op.File, op.V, op.Dt, op.Ns, op.Z)
		return []string{"op:" + kind + ":" + op.File, mtClass}, nil
	case op.Op == "delete":
		m.noteChange(op.File)
		m.remove(op.File)
		return []string{"op:delete:" + op.File}, nil
	case op.Op == "arm":
		if _, err := getVariant(op.File, op.V); err != nil {
			return nil, err
		}
		m.armed[op.File] = armedEdit{op.V, op.Dt, i, op.Ns, op.Z}
		return []string{"op:arm-edit-overlapping-a-load:" + op.File}, nil
	case op.Op == "block":
		f := m.st[op.File]
		if !f.blocked && f.rendered {
			f.touched = true
		}
		f.blocked = true
		m.noteChange(op.File)
		return []string{"op:make-unreadable:" + op.File}, nil
	case op.Op == "unblock":
		f := m.st[op.File]
		if f.blocked && f.rendered {
			f.touched = true
		}
		f.blocked = false
		m.noteChange(op.File)
		return []string{"op:make-readable-again:" + op.File}, nil
	}
	return nil, fmt.Errorf("harness: unknown op %q", op.Op)
}

// noteChange records a non-write op that changes what the engines see of a file (delete,
// unreadable, readable again: on an overlay that can reveal another version): for the
// known-finding bookkeeping it is the op that brought the file into its present state.
func (m *model) noteChange(file string) {
	f := m.st[file]
	m.lastWrite[file] = m.step
	m.freshDt[file] = (f.maxMt/sec+1)*sec - f.realMt
}

// armedDeps lists the dependencies of a render that have an armed edit.
func (m *model) armedDeps(deps []string) []string {
	var out []string
	for _, f := range deps {
		if _, ok := m.armed[f]; ok {
			out = append(out, f)
		}
	}
	return out
}

// fire applies the armed edit of file f and returns the state the file had before, as the
// engines saw it.
func (m *model) fire(f string) (pre preState) {
	a := m.armed[f]
	delete(m.armed, f)
	ex, v, mt := m.eff(f)
	pre = preState{h: held{mt, v}, existed: ex, loadable: ex && variants[f][v].LoadOK}
	step := m.step
	m.step = a.idx // for the known-finding bookkeeping the arm op is the write
	m.write(f, a.v, a.dt, a.ns, a.zero)
	m.step = step
	return pre
}

// preState is the state of a file (as the engines saw it) before an armed edit fired.
type preState struct {
	h        held
	existed  bool
	loadable bool
}

// closure lists the files a correct engine consults for render(entry, target) in the current
// state. It is exact when the render succeeds and an over-approximation otherwise, provided
// none of the returned files is ambiguous.
func (m *model) closure(entry, target string) []string {
	seen := map[string]bool{}
	var out []string
	add := func(f string) {
		if !seen[f] {
			seen[f] = true
			out = append(out, f)
		}
	}
	// a file that uses the <badge> shorthand includes components/Badge.vuego when the engine has
	// the shorthand registered (otherwise the tag stays as it is)
	badge := func(f string) {
		if v, ok := m.cur(f); ok && v.LoadOK && v.Badge && m.comps {
			add(fBadge)
		}
	}
	add(target)
	tv, ok := m.cur(target)
	if !ok || !tv.LoadOK {
		return out
	}
	badge(target)
	if tv.Include {
		add(fComp)
		badge(fComp)
	}
	if tv.Less && m.proc == procLess {
		add(fLess) // @import-ed by the style block the LESS processor compiles on every render
	}
	if entry == eVueRender || entry == eVueFrag {
		return out
	}
	switch tv.Layout {
	case "main":
		// a layout next to the page wins over layouts/ (template_layout.go resolveLayoutPath):
		// the probe is part of the render either way
		add(fRel)
		if _, ok := m.cur(fRel); ok {
			break
		}
		add(fMain)
		badge(fMain)
		if mv, ok := m.cur(fMain); ok && mv.LoadOK {
			if mv.Include {
				add(fComp)
				badge(fComp)
			}
			if mv.Layout == "base" {
				add(fBase)
			}
		}
	case "base":
		add(fBase)
	default:
		// no layout named: layouts/base.vuego is applied when it exists (template_render.go)
		if target != fBase {
			add(fBase)
		}
	}
	return out
}

// expectOK predicts whether render(entry,target) succeeds on the current files.
func (m *model) expectOK(entry, target string) bool {
	if !m.expectOKBase(entry, target) {
		return false
	}
	// everything else is fine, so the closure is exact: a used shorthand needs its component
	for _, f := range m.closure(entry, target) {
		if f == fBadge {
			if v, k := m.cur(fBadge); !k || !v.LoadOK || !v.RenderOK {
				return false
			}
		}
	}
	return true
}

func (m *model) expectOKBase(entry, target string) bool {
	ok := func(f string) (variant, bool) {
		v, k := m.cur(f)
		return v, k && v.LoadOK && v.RenderOK
	}
	compOK := func() bool { _, k := ok(fComp); return k }
	tv, k := ok(target)
	if !k || (tv.Include && !compOK()) {
		return false
	}
	if entry == eVueRender || entry == eVueFrag {
		return true
	}
	needBase := false
	switch tv.Layout {
	case "main":
		if _, there := m.cur(fRel); there {
			if _, k := ok(fRel); !k {
				return false
			}
			break
		}
		mv, k := ok(fMain)
		if !k || (mv.Include && !compOK()) {
			return false
		}
		needBase = mv.Layout == "base"
	case "":
		if ex, _, _ := m.eff(fBase); ex && target != fBase {
			needBase = true
		}
	}
	if needBase {
		if _, k := ok(fBase); !k {
			return false
		}
	}
	return true
}

// renderInfo is the model's view of one render before it happens.
type renderInfo struct {
	deps      []string
	ambiguous string // a dependency whose mtime equals that of a state the engine may still hold with other content
	viaZero   bool   // ... because its current mtime is zero (unknown)
	viaSame   bool   // ... and that came about by a same-mtime edit (otherwise the mtime moved away and back unseen)
	stale     string // a dependency whose mtime equals that of an older state the engine saw but must have dropped since (compared: this is the region of fixed finding C15-stale-entry-after-failed-load)
	rer       bool   // some dependency was rendered before and modified since
	baseStale string // region of known finding C15-stale-default-layout-after-existence-check: layouts/base.vuego came back with an mtime at which the NewFS engine saw other content, after the engine saw it in another state
	uncached  string // region of known finding C15-stale-entry-after-uncached-read: the Vue.Render target came back with the mtime its cache entry has, other content, and the engine saw it in between only through paths that bypass the cache
}

func (m *model) preRender(entry, target string) renderInfo {
	w := m.views[viewIndex(entry)]
	ri := renderInfo{deps: m.closure(entry, target)}
	for _, f := range ri.deps {
		s := m.st[f]
		if s.rendered && s.touched {
			ri.rer = true
		}
		ex, ev, emt := m.eff(f)
		if !ex {
			continue
		}
		if conflicts(w.may[f], emt, ev) {
			if ri.ambiguous == "" {
				ri.ambiguous, ri.viaSame, ri.viaZero = f, s.lastDt0, emt == 0
			}
		} else if conflicts(w.ever[f], emt, ev) {
			if ri.stale == "" {
				ri.stale = f
			}
			if (f == fBase || f == fRel) && viewIndex(entry) == 0 && ri.baseStale == "" {
				ri.baseStale = f
			}
		}
	}
	if ex, ev, emt := m.eff(target); entry == eVueRender && ri.ambiguous == "" && ex &&
		conflicts(w.cache[target], emt, ev) && !conflicts(w.may[target], emt, ev) {
		ri.uncached = target
	}
	return ri
}

// postRender records what the render lets the engine know. ok says whether the render succeeded
// (as decided independently of the long-lived engine).
func (m *model) postRender(entry, target string, ri renderInfo, ok bool) {
	w := m.views[viewIndex(entry)]
	note := func(f string, reset bool) {
		if reset {
			w.may[f] = map[held]bool{}
		}
		if ex, ev, emt := m.eff(f); ex && variants[f][ev].LoadOK {
			h := held{emt, ev}
			w.may[f][h] = true
			w.ever[f][h] = true
		}
	}
	for _, f := range ri.deps {
		m.st[f].rendered, m.st[f].touched = true, false
	}
	if entry == eVueRender {
		// mirror of vuego's Vue.Render cache for the target (only used to delimit the known
		// finding): gone when the file is missing, kept on an equal mtime, otherwise replaced by what
		// loads (or gone when it does not load)
		ex, ev, emt := m.eff(target)
		hit := false
		for h := range w.cache[target] {
			if ex && h.mt == emt {
				hit = true
			}
		}
		switch {
		case hit:
		case !ex || !variants[target][ev].LoadOK:
			w.cache[target] = map[held]bool{}
		default:
			w.cache[target] = map[held]bool{{emt, ev}: true}
		}
	}
	if ri.ambiguous != "" {
		// the engine may be following stale content: it may have looked at anything
		for _, f := range allFiles {
			note(f, false)
		}
		return
	}
	// Which dependencies must the engine have consulted? The target always; everything when the
	// render succeeded (it could not be right otherwise); the culprit when exactly one
	// dependency is missing/invalid/failing (it could not have failed otherwise).
	must := map[string]bool{target: true}
	var broken []string
	for _, f := range ri.deps {
		v, k := m.cur(f)
		if f == fLess || (f == fRel && !k) {
			continue // a missing / unreadable import or page-relative layout does not fail a render
		}
		if !k || !v.LoadOK || !v.RenderOK {
			broken = append(broken, f)
		}
	}
	if ok {
		for _, f := range ri.deps {
			must[f] = true
		}
	} else if len(broken) == 1 {
		must[broken[0]] = true
	}
	for _, f := range ri.deps {
		note(f, must[f])
	}
}

// postRenderOverlapped records a render during (or right after) which armed edits fired: the
// engine may have seen the files before or after the edit, or a mix, so nothing is reset; the
// states before the edits (pres) and the current ones are all possible.
//
// An engine that stats a file and then reads it (the only order that can work) may, when the
// edit falls between the two, pair the NEW content with the OLD mtime; that entry heals at the
// next render (the mtime differs) unless the file later returns to exactly the old mtime, which
// is the equal-mtime situation again, so this pairing counts as possibly held too. The reverse
// pairing (old content, new mtime) would be stale for good and is not a possible state.
func (m *model) postRenderOverlapped(entry, target string, ri renderInfo, pres map[string]preState) {
	w := m.views[viewIndex(entry)]
	for _, f := range ri.deps {
		m.st[f].rendered, m.st[f].touched = true, false
	}
	add := func(f string, h held) {
		w.may[f][h] = true
		w.ever[f][h] = true
		if entry == eVueRender && f == target {
			w.cache[f][h] = true
		}
	}
	for f, p := range pres {
		if p.loadable {
			add(f, p.h)
		}
		if ex, ev, _ := m.eff(f); ex && p.existed && variants[f][ev].LoadOK {
			add(f, held{p.h.mt, ev})
		}
	}
	for _, f := range allFiles {
		if ex, ev, emt := m.eff(f); ex && variants[f][ev].LoadOK {
			h := held{emt, ev}
			w.may[f][h] = true
			w.ever[f][h] = true
			if entry == eVueRender && f == target {
				w.cache[f][h] = true
			}
		}
	}
}

const findingUncached = "C15-stale-entry-after-uncached-read"
const findingBase = "C15-stale-default-layout-after-existence-check"

// offendingWrite simulates the history on the model alone and returns the index of the first
// write that leads to a compared render in the region of an open known finding (and the delta
// that gives that write a brand-new mtime instead, and the finding), or -1.
func offendingWrite(c Case, avoid map[string]bool) (int, int64, string) {
	m, err := newModel(c)
	if err != nil {
		return -1, 0, ""
	}
	for i, op := range c.Ops {
		m.step = i
		switch {
		case op.Op != "render":
			if _, err := m.apply(i, op); err != nil {
				return -1, 0, ""
			}
		default:
			target := op.Target
			if target == "" {
				target = fPage
			}
			if m.st[target] == nil {
				return -1, 0, ""
			}
			ri := m.preRender(op.Entry, target)
			if armed := m.armedDeps(ri.deps); len(armed) > 0 {
				pres := map[string]preState{}
				for _, f := range armed {
					pres[f] = m.fire(f)
				}
				m.postRenderOverlapped(op.Entry, target, ri, pres)
				continue
			}
			if avoid[findingUncached] && ri.uncached != "" && m.lastWrite[ri.uncached] >= 0 {
				return m.lastWrite[ri.uncached], m.freshDt[ri.uncached], findingUncached
			}
			if avoid[findingBase] && ri.baseStale != "" && ri.ambiguous == "" && m.lastWrite[ri.baseStale] >= 0 {
				return m.lastWrite[ri.baseStale], m.freshDt[ri.baseStale], findingBase
			}
			m.postRender(op.Entry, target, ri, m.expectOK(op.Entry, target))
		}
	}
	return -1, 0, ""
}

// sanitize moves every write that leads into the region of the open known finding to a
// brand-new mtime (so the rest of the history is still explored) and reports how many writes
// it changed.
func sanitize(c Case, avoid map[string]bool) (Case, []string) {
	var n []string
	if len(avoid) == 0 {
		return c, nil
	}
	for iter := 0; iter <= len(c.Ops); iter++ {
		idx, dt, id := offendingWrite(c, avoid)
		if idx < 0 {
			break
		}
		ops := append([]Op(nil), c.Ops...)
		if o := ops[idx]; o.isWrite() || o.Op == "arm" {
			ops[idx].Dt, ops[idx].Ns, ops[idx].Z = 0, dt, false
		} else {
			// a delete / block / unblock led there (e.g. by revealing the overlay's other
			// version): an edit with a brand-new mtime takes its place
			ops[idx] = Op{Op: "edit", File: o.File, V: variantsWhere(o.File, true)[0], Ns: dt}
		}
		c2 := c
		c2.Ops = ops
		c = c2
		n = append(n, id)
	}
	return c, n
}
