package c15

import (
	"bytes"
	"context"
	"fmt"
	"testing"
	"time"

	"github.com/titpetric/vuego"
	"verif/internal/memfs"
)

func TestProbe(t *testing.T) {
	fs := memfs.New()
	t0 := time.Unix(100, 0)
	fs.Write("page.vuego", "---\ntitle: T1\nlayout: main\n---\n<div data-m=\"page\">P1 {{ title }} {{ x }}<template include=\"comp.vuego\"></template><style v-once>.p{}</style></div>", t0)
	fs.Write("comp.vuego", "---\nnote: N1\n---\n<span data-m=\"comp\">C0 {{ title }} {{ note }}</span>", t0)
	fs.Write("layouts/main.vuego", "---\nlayout: base\n---\n<main data-m=\"main\"><h1>M0 {{ title }}</h1><div v-html=\"content\"></div></main>", t0)
	fs.Write("layouts/base.vuego", "<html><head><title>{{ title }}</title></head><body data-m=\"base\">B0 <div v-html=\"content\"></div></body></html>", t0)
	root := vuego.NewFS(fs)
	vue := vuego.NewVue(fs)
	data := map[string]any{"title": "D", "x": "X"}
	show := func(name string, f func(b *bytes.Buffer) error) {
		fs.ResetCounters()
		var b bytes.Buffer
		err := f(&b)
		fmt.Printf("%s: err=%v opens(page)=%d total=%d\n  %q\n", name, err, fs.Opens("page.vuego"), fs.TotalOpens(), b.String())
	}
	ctx := context.Background()
	for i := 0; i < 2; i++ {
		show("loadrender", func(b *bytes.Buffer) error { return root.Load("page.vuego").Fill(data).Render(ctx, b) })
		show("renderfile", func(b *bytes.Buffer) error { return root.RenderFile(ctx, b, "page.vuego") })
		show("vue.Render", func(b *bytes.Buffer) error { return vue.Render(b, "page.vuego", data) })
		show("vue.Fragment", func(b *bytes.Buffer) error { return vue.RenderFragment(b, "page.vuego", data) })
	}
	tick := int64(200); for _, bad := range []string{"---\ntitle: [unterminated\n---\n<p>bad</p>", "---\n\ttitle: x\n---\n<p>bad</p>", "---\ntitle: x\n<p>nofm-end</p>", "---\n- a\n- b\n---\n<p>list</p>", "<p v-for=\"x in\">q</p>", "<p>{{ nofunc(1) }}</p>", "<template include=\"nope.vuego\"></template>", "<p v-if=\"a ++ b\">q</p>"} {
		tick++; fs.Write("page.vuego", bad, time.Unix(tick, 0))
		show(fmt.Sprintf("bad %q", bad), func(b *bytes.Buffer) error { return vue.Render(b, "page.vuego", data) })
	}
}
