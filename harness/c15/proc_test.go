package c15

// Engine-option dimension: a registered vuego.NodeProcessor that edits the nodes it is handed
// in place. The same processor is registered on the long-lived engines and on every engine
// created for comparison, so whatever it does to one render's nodes is the same on both sides;
// a difference can only come from an edit leaking into state that outlives the render (the
// cached template DOM).

import (
	"fmt"
	iofs "io/fs"
	"strings"

	"github.com/titpetric/vuego"
	"golang.org/x/net/html"
)

const (
	procNone       = ""
	procAttrPrefix = "attr-prefix" // rewrites the VALUE of every data-m attribute in place, non-idempotently ("~" prefix)
	procAttrAppend = "attr-append" // appends an attribute data-n<k> (k = current attribute count) to every element with data-m
	procText       = "text"        // appends "~" to the data of every non-blank text node in place
	procRemove     = "remove"      // removes the first child of every element with data-m when that child is a text node
	procAll        = "all"         // all of the above
	// procLess: vuego's own LESS processor (vuego.WithLessProcessor / NewLessProcessor(fs)): style
	// blocks of type text/css+less are compiled on every render, @import reads the template fs
	procLess = "less"
)

var allProcs = []string{procNone, procAttrPrefix, procAttrAppend, procText, procRemove, procAll, procLess}

type editProc struct{ mode string }

func (p editProc) New() vuego.NodeProcessor { return p }

func (p editProc) has(m string) bool { return p.mode == m || p.mode == procAll }

func (p editProc) walk(n *html.Node) {
	switch n.Type {
	case html.TextNode:
		if p.has(procText) && strings.TrimSpace(n.Data) != "" {
			n.Data += "~"
		}
	case html.ElementNode:
		marked := false
		for i := range n.Attr {
			if n.Attr[i].Key == "data-m" {
				marked = true
				if p.has(procAttrPrefix) {
					n.Attr[i].Val = "~" + n.Attr[i].Val
				}
			}
		}
		if marked && p.has(procAttrAppend) {
			n.Attr = append(n.Attr, html.Attribute{Key: fmt.Sprintf("data-n%d", len(n.Attr)), Val: "1"})
		}
		if marked && p.has(procRemove) && n.FirstChild != nil && n.FirstChild.Type == html.TextNode {
			// unlink by hand: html.Node.RemoveChild insists on consistent Parent pointers, which
			// the nodes vuego hands to processors do not always have (not this property's business)
			c := n.FirstChild
			n.FirstChild = c.NextSibling
			if c.NextSibling != nil {
				c.NextSibling.PrevSibling = nil
			} else {
				n.LastChild = nil
			}
			c.Parent, c.NextSibling, c.PrevSibling = nil, nil, nil
		}
	}
	for c := n.FirstChild; c != nil; c = c.NextSibling {
		p.walk(c)
	}
}

func (p editProc) run(nodes []*html.Node) error {
	for _, n := range nodes {
		p.walk(n)
	}
	return nil
}

// PreProcess gets the render's copy of the template DOM, PostProcess the evaluated nodes.
func (p editProc) PreProcess(nodes []*html.Node) error  { return p.run(nodes) }
func (p editProc) PostProcess(nodes []*html.Node) error { return p.run(nodes) }

// testFuncs are registered on every engine: a function with an int parameter makes the Go type
// of a front-matter value observable.
var testFuncs = vuego.FuncMap{"times3": func(n int) int { return n * 3 }}

func newRoot(fs iofs.FS, proc string, comps bool) vuego.Template {
	opts := []vuego.LoadOption{vuego.WithFuncs(testFuncs)}
	if comps {
		// scans components/ of the filesystem at construction (components/Badge.vuego -> <badge>)
		opts = append(opts, vuego.WithComponents())
	}
	switch proc {
	case procNone:
	case procLess:
		opts = append(opts, vuego.WithLessProcessor())
	default:
		opts = append(opts, vuego.WithProcessor(editProc{proc}))
	}
	return vuego.NewFS(fs, opts...)
}

func newVue(fs iofs.FS, proc string, comps bool) *vuego.Vue {
	v := vuego.NewVue(fs).Funcs(testFuncs)
	if comps {
		v.RegisterComponent("badge", fBadge)
	}
	if proc == procLess {
		return v.RegisterNodeProcessor(vuego.NewLessProcessor(fs))
	}
	if proc != procNone {
		v.RegisterNodeProcessor(editProc{proc})
	}
	return v
}

func validProc(p string) bool {
	for _, q := range allProcs {
		if p == q {
			return true
		}
	}
	return false
}
