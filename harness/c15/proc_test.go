package c15

// Engine-option dimension: a registered vuego.NodeProcessor that edits the nodes it is handed
// in place. The same processor is registered on the long-lived engines and on every engine
// created for comparison, so whatever it does to one render's nodes is the same on both sides;
// a difference can only come from an edit leaking into state that outlives the render (the
// cached template DOM).

import (
	"fmt"
	iofs "io/fs"
	"strings"

	"github.com/titpetric/vuego"
	"golang.org/x/net/html"
)

const (
	procNone       = ""
	procAttrPrefix = "attr-prefix" // rewrites the VALUE of every data-m attribute in place, non-idempotently ("~" prefix)
	procAttrAppend = "attr-append" // appends an attribute data-n<k> (k = current attribute count) to every element with data-m
	procText       = "text"        // appends "~" to the data of every non-blank text node in place
	procRemove     = "remove"      // removes the first child of every element with data-m when that child is a text node
	procAll        = "all"         // all of the above
	// procLess: vuego's own LESS processor (vuego.WithLessProcessor / NewLessProcessor(fs)): style
	// blocks of type text/css+less are compiled on every render, @import reads the template fs
	procLess = "less"
)

var allProcs = []string{procNone, procAttrPrefix, procAttrAppend, procText, procRemove, procAll, procLess}

type editProc struct{ mode string }

func (p editProc) New() vuego.NodeProcessor { return p }

func (p editProc) has(m string) bool { return p.mode == m || p.mode == procAll }

func (p editProc) walk(n *html.Node) {
	switch n.Type {
	case html.TextNode:
		if p.has(procText) && strings.TrimSpace(n.Data) != "" {
			n.Data += "~"
		}
	case html.ElementNode:
		marked := false
		for i := range n.Attr {
			if n.Attr[i].Key == "data-m" {
				marked = true
				if p.has(procAttrPrefix) {
					n.Attr[i].Val = "~" + n.Attr[i].Val
				}
			}
		}
		if marked && p.has(procAttrAppend) {
			n.Attr = append(n.Attr, html.Attribute{Key: fmt.Sprintf("data-n%d", len(n.Attr)), Val: "1"})
		}
		if marked && p.has(procRemove) && n.FirstChild != nil && n.FirstChild.Type == html.TextNode {
			// unlink by hand: html.Node.RemoveChild insists on consistent Parent pointers, which
			// the nodes vuego hands to processors do not always have (not this property's business)
			c := n.FirstChild
			n.FirstChild = c.NextSibling
			if c.NextSibling != nil {
				c.NextSibling.PrevSibling = nil
			} else {
				n.LastChild = nil
			}
			c.Parent, c.NextSibling, c.PrevSibling = nil, nil, nil
		}
	}
	for c := n.FirstChild; c != nil; c = c.NextSibling {
		p.walk(c)
	}
}

func (p editProc) run(nodes []*html.Node) error {
	for _, n := range nodes {
		p.walk(n)
	}
	return nil
}

// PreProcess gets the render's copy of the template DOM, PostProcess the evaluated nodes.
func (p editProc) PreProcess(nodes []*html.Node) error  { return p.run(nodes) }
func (p editProc) PostProcess(nodes []*html.Node) error { return p.run(nodes) }

// testFuncs are registered on every engine: a function with an int parameter makes the Go type
// of a front-matter value observable.
var testFuncs = vuego.FuncMap{"times3": func(n int) int { return n * 3 }}

// Constructor spellings of the long-lived engines (Case.Ctor). The engine created for
// comparison is always built the canonical way (ctorCanonical): a documented-equivalent
// spelling must refresh exactly like it.
const (
	ctorCanonical   = ""               // vuego.NewFS(fs, opts...);  NewVue(fs).Funcs(..).RegisterComponent(..).RegisterNodeProcessor(..)
	ctorWithFSFirst = "new-withfs"     // vuego.New(vuego.WithFS(fs), opts...);  NewVue(fs) with the registrations in reverse order
	ctorWithFSMid   = "new-withfs-mid" // vuego.New(WithFuncs(..), vuego.WithFS(fs), the options that read the file system...)
)

var allCtors = []string{ctorCanonical, ctorWithFSFirst, ctorWithFSMid}

func validCtor(c string) bool {
	return c == ctorCanonical || c == ctorWithFSFirst || c == ctorWithFSMid
}

func newRoot(fs iofs.FS, proc string, comps bool, ctor string) vuego.Template {
	// options that do not look at the file system
	pre := []vuego.LoadOption{vuego.WithFuncs(testFuncs)}
	// options that read the engine's file system when they are applied (WithComponents scans
	// components/, WithLessProcessor hands it to the LESS importer): they follow WithFS
	var post []vuego.LoadOption
	if comps {
		post = append(post, vuego.WithComponents())
	}
	switch proc {
	case procNone:
	case procLess:
		post = append(post, vuego.WithLessProcessor())
	default:
		pre = append(pre, vuego.WithProcessor(editProc{proc}))
	}
	switch ctor {
	case ctorWithFSFirst:
		opts := append([]vuego.LoadOption{vuego.WithFS(fs)}, pre...)
		return vuego.New(append(opts, post...)...)
	case ctorWithFSMid:
		opts := append(append([]vuego.LoadOption{}, pre...), vuego.WithFS(fs))
		return vuego.New(append(opts, post...)...)
	}
	return vuego.NewFS(fs, append(pre, post...)...)
}

func newVue(fs iofs.FS, proc string, comps bool, ctor string) *vuego.Vue {
	v := vuego.NewVue(fs)
	regProc := func() {
		if proc == procLess {
			v.RegisterNodeProcessor(vuego.NewLessProcessor(fs))
		} else if proc != procNone {
			v.RegisterNodeProcessor(editProc{proc})
		}
	}
	regComps := func() {
		if comps {
			v.RegisterComponent("badge", fBadge)
		}
	}
	if ctor == ctorCanonical {
		v.Funcs(testFuncs)
		regComps()
		regProc()
	} else {
		regProc()
		regComps()
		v.Funcs(testFuncs)
	}
	return v
}

func validProc(p string) bool {
	for _, q := range allProcs {
		if p == q {
			return true
		}
	}
	return false
}
