#!/usr/bin/env python3
"""Regenerates /verif/MANIFEST.json from the table below (kept in one place so the file stays valid)."""
import json, os
ROOT = os.path.dirname(os.path.abspath(__file__))
ALL = ["C%02d" % i for i in range(1, 21)]

# id -> (category, technique, level text, level note, design ref)
CLAIMED = {
 "C18": ("exploration",
         "bounded exhaustive enumeration used as generator + rapid random stacks, reference union model (model-based PBT)",
         "Every stack of up to 2 (quick) / 3 (thorough) layers over a 5-path universe, including nil layers, empty directories and file-vs-directory shadowing, is compared query by query (ReadFile, Stat, ReadDir, Glob) with a union model computed from the layer descriptions; rapid adds deeper random stacks over a larger universe. Exhaustive within the bound, sampled beyond; cannot show absence outside the bound.",
         "Trusts testing/fstest.MapFS, io/fs helpers and path.Match; ReadDir on stacks made only of nil layers is not asserted (the repository's own suite pins [] , nil there).",
         "DESIGN.md §6 C18"),
}
CLAIMED["C01"] = ("exploration",
 "bounded exhaustive enumeration of hostile strings x sinks x neighbourhoods + rapid random token sequences; metamorphic oracle (harmless word vs hostile value) on the HTML5 re-parse, plus sink-content equality and a canary variable",
 "Every hostile token string up to length 2 (quick) / 3 (thorough) over a 14-token core alphabet, and rapid-generated longer ones, is pushed through 18 escaped sinks (text, v-text, interpolated/bound/class/style attributes, v-for item, include props, slot props, layout variables, v-if/v-else on the sink element) in 9 static neighbourhoods written with character references and 7 enclosing constructs. The HTML5 parse of the output must have the same elements and attribute names as with a harmless word, the sink must contain exactly neighbours+value, and a canary variable in scope must never be printed. Exhaustive within the bound, sampled beyond.",
 "Trusts golang.org/x/net/html as the HTML5 parser. v-html and script/style bodies are exempt as documented; falsy bound values are left to C14; JSON-looking static include props are only checked for parse-equality and the canary.",
 "DESIGN.md §6 C01")
CLAIMED["C02"] = ("exploration",
 "rapid-generated parser-stable HTML trees with varied character-reference spellings and value holes; round-trip oracle: HTML5 parse(output) == HTML5 parse(template with holes textually substituted)",
 "Generated fragments and full documents over block/inline/void/table/raw-text elements, attributes and text spelled with many character-reference variants are rendered through all seven entry points; the HTML5 parse of the output must equal the parse of the source (elements, attribute names and values, text, doctype; whitespace and comments aside). With holes, the expected tree is the parse of the source with each hole replaced by the escaped fmt.Sprint of its value; v-html output must contain its value verbatim and parse to the value's tree. Sampled, not exhaustive.",
 "Trusts x/net/html parser+renderer (also used to filter to parser-stable sources). Whitespace at the ends of text runs and attribute values is treated as insignificant. <br> is an open known finding (serialised as <br></br>, pinned by the repository's fixtures) and excluded from generation.",
 "DESIGN.md §6 C02")
CLAIMED["C12"] = ("fault_enumeration",
 "fault enumeration over a program catalogue: failing writer at every byte offset, cancelled context, failure injected into every file; validity predicate (error => zero bytes, nil => complete document, writer failure => error)",
 "For every catalogue program (succeeding and failing, failure early/late/in loop/include/layout) and every Template entry point, the check enumerates: a plain run, a context cancelled before the call, a failing expression injected at the start and end of every file, and a destination writer that fails at every single byte offset of the reference output. Error returns must leave the writer untouched, nil returns must have delivered the complete document (END marker), and any writer failure must surface as a non-nil error. Exhaustive over catalogue x entry points x offsets; the catalogue itself is a finite sample of templates.",
 "Scope is the Template render methods named in the statement. Completeness is recognised by an END marker element that ends every catalogue program. Error wording is not asserted.",
 "DESIGN.md §6 C12")
CLAIMED["C11"] = ("exploration",
 "bounded exhaustive enumeration (value kinds x directive positions; include/layout graphs with every cycle shape) + rapid grammar-aware template mutation + native go fuzz; validity predicate with deterministic step budgets (file opens, output bytes, stack size) and crash attribution via an in-flight case file",
 "Every value kind (plus pointer cycles, typed nils, non-string map keys, unexported fields, 200-deep data) is placed in 29 directive positions and as root data; every include graph over three files with one include edge per file in six placements (every cycle shape) is combined with layout cycles; rapid mutates catalogue-like templates with ~80 malformed expressions, unbalanced mustaches, deep nesting, stray chain members and doubled slots; the thorough tier adds 120 s of native coverage-guided fuzzing of raw template bytes. A case passes iff the call returns without a panic within 4000 file opens, 32 MiB of output and 128 MiB of stack. Exhaustive for the two enumerated families within their bounds; sampled for template sources.",
 "Non-termination is decided by deterministic budgets, so a pure CPU loop that neither opens files nor writes would only hit the driver watchdog (exit 2, inconclusive). Unconditional include cycles with fan-out >= 2 and self-containing map/slice values (fmt itself overflows on them) are outside the asserted domain. User functions that panic are the user's defect.",
 "DESIGN.md §6 C11")
CLAIMED["C09"] = ("exploration",
 "randomised concurrent schedules (goroutine count, GOMAXPROCS, barrier, cold/warm, file writer) under the Go race detector + differential oracle (each concurrent call vs the same call alone on a fresh engine)",
 "Every catalogue program (all features) is rendered by 2..64 goroutines released together on one shared engine / base template through a mix of all six entry points, with cold and warm caches, a read-only data map shared between goroutines, per-goroutine unique paths and expressions (concurrent writes to the path and program caches), a second engine running another program at the same time, and optionally a writer goroutine replacing template files with new mtimes. The build uses -race: any report is a violation; and every call's bytes and error must equal the same call run alone (old or new file version when files change). Schedules are sampled, not enumerated; the happens-before analysis covers every conflicting pair that was executed regardless of timing.",
 "Interleavings are not controlled by the harness. Cross-talk that needs a specific interleaving and is not a data race can be missed. The check's own filesystem is mutex-protected.",
 "DESIGN.md §6 C09")
CLAIMED['C05'] = ("exploration", 'rapid-generated include trees + exhaustive cores; reference scope model (includer scope + props + front-matter), differential shorthand vs explicit include', 'Generated file sets (<=5 components, depth<=3, fan-out<=3, every prop provided/omitted/static/interpolated/bound, name collisions with includer variables and front-matter, :required lists in CSV/repeated form) are rendered and every printed name at every position is compared with a scope model; required names missing from all sources must fail with an error naming them, never otherwise; the shorthand spelling must render like the explicit include. Exhaustive cores for flat, twice-included, 3-deep chains and value types; sampled beyond.', "Unspecified and unasserted: a required name satisfied only by the includer's scope, JSON-looking static props (documented auto-decode), unresolved bound paths.", 'DESIGN.md §6 C05')
CLAIMED['C08'] = ("exploration", 'bounded exhaustive enumeration of source-presence patterns x value types x Fill kinds x read positions + rapid op histories on a template tree; reference precedence model', 'All 2^6 presence patterns of a key over {front-matter, Fill, Assign, data/a.yml, data/b.yml, theme.yml} x five value types x map/struct/pointer Fill arguments (field by name, by tag, Go name of a tagged field) x five read positions are compared with the first-present-source model; rapid histories of New/Load/Fill/Assign/Render/Get on a tree check that children never disturb parents or siblings. Exhaustive for family A within its bound.', 'An Assign before a later Fill of other keys is unspecified (Fill sets all variables) and not asserted. Open finding: Get() returns an Assign value that front-matter overrides in renders.', 'DESIGN.md §6 C08')
CLAIMED['C13'] = ("exploration", 'typed expression-tree and pipe-chain generators (rapid) + bounded enumeration; reference evaluator written for the check; position-agreement (metamorphic) oracle', "Typed expression trees (depth<=3: paths, literals, comparison, logical, arithmetic, ternary, calls) are rendered in {{ }}, static and bound attributes, v-if, v-else-if and v-show; the printed value must equal the check's own evaluator and all positions must agree. Pipe chains up to length 3 over built-ins and 18 registered functions of every parameter shape must equal direct left-to-right application with the documented conversions; unknown function, wrong arity, impossible conversion and returned errors must fail the render with an error naming the function. Sampled, with an exhaustive depth-1 core.", "Value of '/' and '!' on non-bools, narrowing conversions, bare literals as whole expressions and built-ins outside their documented input type are unspecified and only compared across positions.", 'DESIGN.md §6 C13')
CLAIMED['C17'] = ("exploration", 'stateful model-based testing: exhaustive short op sequences + rapid long ones against a slice-of-maps reference model; path resolution checked against plain Go indexing done by the generator', 'Every op sequence up to length 3 (quick) / 4 (thorough) over a 17-op alphabet and six root-data shapes, and rapid sequences up to 30 ops, are run against the real Stack and a reference model, comparing Lookup/Resolve/EnvMap for every name after every op and the independence of copies. Generated nested values with a path obtained by walking the value with ordinary Go indexing must resolve to that element in dotted and bracketed spellings; invalid paths must report absence without panicking. Exhaustive for short sequences and paths.', 'Presence of nil-valued bindings, Pop clearing a caller map, ForEach order over maps and best-effort Get* conversions are unspecified and unasserted.', 'DESIGN.md §6 C17')
CLAIMED['C07'] = ('fault_enumeration', 'bounded exhaustive enumeration of layout graphs (all graphs over 4-5 files, every chain length/ending/cycle shape, chains of 90..150 links) + rapid larger graphs; reference layout walker; step budgets (file opens, output bytes)', 'All layout graphs over 4 (quick) / 5 (thorough) layout files x page options, every chain length 0..5 with every ending (ends, missing target, back-edge to each earlier file or itself), synthetic chains up to 150 links, relative-vs-layouts/ shadowing and presence/absence of layouts/base.vuego are rendered on a budgeted in-memory filesystem and compared with a reference walker: nesting of markers (outermost layout outside), content passed link to link, page data and front-matter visible in layouts, the default applied only when due, exactly one document written, and for cycles / missing targets / more than 100 links an error with zero bytes written and no runaway. Exhaustive within the bound.', 'The exact off-by-one of the 100-link limit is not pinned (91..100 links may go either way, cleanly). Which of page front-matter or Fill wins inside a layout lacking the key, and layout keys supplied by theme.yml/data files, are not asserted.', 'DESIGN.md §6 C07')
CLAIMED['C19'] = ('exploration', "corpus (all repository .vuego files and fenced doc snippets) + rapid-generated DOM trees serialised by the check's own always-escaping serialiser + native go fuzz of raw strings; oracles: idempotence (bytes) and HTML5-parse equivalence of Format(x) and x", 'Every .vuego file of the repository and every html/vue snippet of the docs, plus generated fragments, table fragments and full documents (block/inline/void/table/raw-text elements, attribute values with quotes, entities, operators, newlines, vuego directive attributes, mustaches containing < > & and quotes, front-matter, doctype spellings, CRLF) are formatted: Format(Format(x)) must equal Format(x) byte for byte, and the HTML5 parse of Format(x) must have the same elements, attribute names, attribute values up to whitespace collapsing, the same non-whitespace text, the same mustache expressions, and the front-matter and doctype byte for byte. Thorough adds 90 s of native fuzzing for panic-freedom and idempotence. Sampled.', "Layout, indentation, comments and attribute order are not asserted. Inputs on which Format returns an error are skipped (counted) unless they are repository files. Open finding: escaped '<' inside a mustache is written back raw.", 'DESIGN.md §6 C19')
NOT_YET = "check under construction in this session; not claimed until it is built and silent on the unchanged tree"

def main():
    checks = []
    for pid in ALL:
        if pid not in CLAIMED:
            continue
        cat, tech, text, note, ref = CLAIMED[pid]
        checks.append({
            "property_id": pid,
            "quick_cmd": "./check %s quick" % pid,
            "thorough_cmd": "./check %s thorough" % pid,
            "evidence_file": "/verif/evidence/%s.json" % pid,
            "replay_cmd_template": "./check %s --replay {path}" % pid,
            "engine": "harness",
            "level_claimed": {"category": cat, "text": text, "design_ref": ref},
            "level_note": note,
            "technique": tech,
        })
    man = {
        "version": 1,
        "setup_cmd": "./setup.sh",
        "hooks": {
            "guard": "verif",
            "enable": "go test -tags verif (the harness module replaces github.com/titpetric/vuego with /repo, so every check rebuilds from the working tree); no source hooks are currently needed",
            "baseline_off_cmd": "cd /repo && GOFLAGS=-mod=mod go test -json -vet=off -count=1 -timeout 25m ./...",
            "source_commits": [],
            "add_only": True,
        },
        "engines": [{
            "name": "harness",
            "path": "/verif/harness",
            "serves_properties": sorted(CLAIMED),
            "kind_free_text": "Go module 'verif': pgregory.net/rapid v1.3.0 generators + bounded exhaustive enumerators + native go fuzz targets, one package per property, explicit oracles (reference models, HTML5 re-parse, differential, fault enumeration); driver in cmd/driver shards by seed and merges evidence",
        }],
        "checks": checks,
        "notes": "Exit codes: 0 held, 1 VIOLATION printed, 2 inconclusive (build failure, watchdog). VERIF_SEED selects the rapid seeds (1+seed*1000+shard). Known findings: /verif/known_findings.json.",
        "not_applicable": [{"property_id": p, "reason": NOT_YET} for p in ALL if p not in CLAIMED],
    }
    with open(os.path.join(ROOT, "MANIFEST.json"), "w") as f:
        json.dump(man, f, indent=1)
        f.write("\n")

if __name__ == "__main__":
    main()
